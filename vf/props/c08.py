"""C08 match selects, binds and returns like Python's match statement."""

PROP = "C08"
RULE = (
    "match forms of 1..4 cases; patterns of depth <= 3 over literals (int, negative, float, complex, str, bytes, None/True/False), "
    "captures, _, value patterns (Color.RED, ns.Color.GREEN), list and tuple sequences with at most one #* rest / #* _, mappings with "
    "literal keys and #** rest, class patterns (int str list dict, a dataclass with __match_args__, positional + keyword), (| ...) "
    "alternatives, :as, Hy's keyword pattern; guards plain, statement-producing ((do (E i) ...)) and reading captured names; case "
    "bodies plain or statement-producing (if/do, try, nested match) returning [case-index captured-values...]; the match used as a "
    "setv value, a call argument and a let binding; at module level and inside a function. Subjects: a random case's pattern "
    "instantiated into a matching value, then mutated with probability 1/2, else a random value. Illegal forms (irrefutable case not "
    "last, alternatives binding different names, duplicate captures/keys) with small probability. Oracle: the same cases rendered as "
    "a Python match statement and executed by CPython with the same subject: same returned value (None when nothing matches), same "
    "values of the selected case's captured names afterwards, same guard/effect log in order, same exception type; compile-time "
    "rejection (SyntaxError subclass) on both sides or neither. Non-trivial = pattern depth >= 2, or a guard, or | / :as; distinct by Hy text + subject"
)
ASSUMPTIONS = [
    "CPython 3.12's match statement is the reference",
    "only the names captured by the selected case are compared afterwards (what a failed pattern leaves bound is not specified)",
    "case-body wrappers (if True (do (E k) V) None), (if False None (do (E k) V)), (try V (except [ValueError] 0)), (match 1 1 V), (match 1 1 <if wrapper> _ 0), (match 1 2 0 _ <try wrapper>), (match 1 1 (match 2 2 <if wrapper>)) mean V (with effect k) - they are rendered as plain assignments on the Python side",
]

import dataclasses


@dataclasses.dataclass
class P:
    x: object
    y: object


class P3:
    __match_args__ = ("a", "b", "c")

    def __init__(self, a, b, c):
        self.a, self.b, self.c = a, b, c

    def __repr__(self):
        return "P3(%r, %r, %r)" % (self.a, self.b, self.c)


class Color:
    RED = 1
    GREEN = "g"


class ns:
    Color = Color


def base_ns(log):
    import hy
    import hy.models

    def E(i, v=None):
        log.append(["E", i])
        return v

    def G(i, truth, *vals):
        log.append(["G", i, [repr(v) for v in vals]])
        return truth

    return dict(P=P, P3=P3, Color=Color, ns=ns, KW=hy.models.Keyword, E=E, G=G, IDENT=lambda x: x, hy=hy)


# ------------------------------------------------------------------ rendering
def hy_lit(src):
    if src.startswith("'"):
        return '"' + src[1:-1] + '"'
    if src.startswith("b'"):
        return 'b"' + src[2:-1] + '"'
    return src


def hy_pat(p):
    k = p[0]
    if k == "lit":
        return hy_lit(p[1])
    if k == "cap":
        return p[1]
    if k == "wild":
        return "_"
    if k == "val":
        return p[1]
    if k == "star":
        return "#* " + p[1]
    if k == "seq":
        inner = " ".join(hy_pat(x) for x in p[2])
        return "[" + inner + "]" if p[1] == "list" else "#(" + inner + ")"
    if k == "map":
        items = ["%s %s" % (hy_lit(key), hy_pat(v)) for key, v in p[1]]
        if p[2]:
            items.append("#** " + p[2])
        return "{" + " ".join(items) + "}"
    if k == "cls":
        parts = [p[1]] + [hy_pat(x) for x in p[2]] + [":%s %s" % (kw, hy_pat(v)) for kw, v in p[3]]
        return "(" + " ".join(parts) + ")"
    if k == "or":
        return "(| " + " ".join(hy_pat(x) for x in p[1]) + ")"
    if k == "as":
        return hy_pat(p[1]) + " :as " + p[2]
    if k == "kw":
        return ":" + p[1]
    raise ValueError(k)


def py_pat(p):
    k = p[0]
    if k == "lit":
        return p[1]
    if k == "cap":
        return p[1]
    if k == "wild":
        return "_"
    if k == "val":
        return p[1]
    if k == "star":
        return "*" + p[1]
    if k == "seq":
        inner = ", ".join(py_pat(x) for x in p[2])
        if p[1] == "list":
            return "[" + inner + "]"
        return "(" + inner + ("," if len(p[2]) == 1 else "") + ")"
    if k == "map":
        items = ["%s: %s" % (key, py_pat(v)) for key, v in p[1]]
        if p[2]:
            items.append("**" + p[2])
        return "{" + ", ".join(items) + "}"
    if k == "cls":
        parts = [py_pat(x) for x in p[2]] + ["%s=%s" % (kw, py_pat(v)) for kw, v in p[3]]
        return "%s(%s)" % (p[1], ", ".join(parts))
    if k == "or":
        return "(" + " | ".join(py_pat(x) for x in p[1]) + ")"
    if k == "as":
        return "(%s as %s)" % (py_pat(p[1]), p[2])
    if k == "kw":
        return "KW(%r)" % p[1]
    raise ValueError(k)


def captures(p, out=None):
    out = [] if out is None else out
    k = p[0]
    if k == "cap":
        out.append(p[1])
    elif k == "star" and p[1] != "_":
        out.append(p[1])
    elif k == "seq":
        for x in p[2]:
            captures(x, out)
    elif k == "map":
        for _, v in p[1]:
            captures(v, out)
        if p[2]:
            out.append(p[2])
    elif k == "cls":
        for x in p[2]:
            captures(x, out)
        for _, v in p[3]:
            captures(v, out)
    elif k == "or":
        if p[1]:
            captures(p[1][0], out)  # every alternative binds the same names in a legal pattern
    elif k == "as":
        captures(p[1], out)
        out.append(p[2])
    return out


def depth(p):
    k = p[0]
    subs = []
    if k == "seq":
        subs = p[2]
    elif k == "map":
        subs = [v for _, v in p[1]]
    elif k == "cls":
        subs = list(p[2]) + [v for _, v in p[3]]
    elif k == "or":
        subs = p[1]
    elif k == "as":
        subs = [p[1]]
    return 1 + max([depth(s) for s in subs], default=0)


def dedupe(names):
    out = []
    for n in names:
        if n not in out:
            out.append(n)
    return out


def hy_guard(g, names):
    if g is None:
        return ""
    args = " ".join(names)
    call = "(G %d %s %s)" % (g[1], g[2], args)
    if g[0] == "stmt":
        call = "(do (E %d) %s)" % (g[3], call)
    return " :if " + call


def py_guard(g, names):
    if g is None:
        return ""
    call = "G(%s)" % ", ".join([str(g[1]), str(g[2])] + names)
    if g[0] == "stmt":
        call = "(E(%d), %s)[1]" % (g[3], call)
    return " if " + call


def hy_body(i, c, names):
    v = "[%d %s]" % (i, " ".join(names)) if names else "[%d]" % i
    b = c.get("body", "plain")
    if b == "ifdo":
        return "(if True (do (E %d) %s) None)" % (900 + i, v)
    if b == "try":
        return "(try %s (except [ValueError] 0))" % v
    if b == "nested":
        return "(match 1 1 %s)" % v
    if b == "nested-ifdo":  # the inner case body has a temporary of its own
        return "(match 1 1 (if True (do (E %d) %s) None) _ 0)" % (900 + i, v)
    if b == "nested-try":
        return "(match 1 2 0 _ (try %s (except [ValueError] 0)))" % v
    if b == "nested2":
        return "(match 1 1 (match 2 2 (if True (do (E %d) %s) None)))" % (900 + i, v)
    if b == "ifdo-else":
        return "(if False None (do (E %d) %s))" % (900 + i, v)
    return v


EFFECT_BODIES = ("ifdo", "nested-ifdo", "nested2", "ifdo-else")


def py_body(i, c, names):
    v = "[%s]" % ", ".join([str(i)] + names)
    pre = "E(%d); " % (900 + i) if c.get("body") in EFFECT_BODIES else ""
    return pre + "R = " + v


def render(case):
    cases = case["cases"]
    hparts, plines = [], ["R = None", "match S:"]
    for i, c in enumerate(cases):
        names = dedupe(captures(c["pat"]))
        hparts.append("%s%s %s" % (hy_pat(c["pat"]), hy_guard(c.get("guard"), names), hy_body(i, c, names)))
        plines.append("    case %s%s:" % (py_pat(c["pat"]), py_guard(c.get("guard"), names)))
        plines.append("        " + py_body(i, c, names))
    m = "(match S\n  %s)" % "\n  ".join(hparts) if hparts else "(match S)"
    use = case.get("use", "setv")
    if use == "setv":
        h = "(setv R %s)" % m
    elif use == "arg":
        h = "(setv R (IDENT %s))" % m
    else:
        h = "(let [r %s] (setv R r))" % m
    if not cases:
        plines = ["R = None"]
    allnames = dedupe([n for c in cases for n in captures(c["pat"])])
    if case.get("scope") == "function":
        h = "(defn MAIN [S]\n%s\n(return [R (locals)]))\n(setv OUT (MAIN S))" % h
        p = "def MAIN(S):\n" + "\n".join("    " + l for l in plines) + "\n    return [R, locals()]\nOUT = MAIN(S)\n"
    else:
        h = h + "\n(setv OUT [R (globals)])"
        p = "\n".join(plines) + "\nOUT = [R, globals()]\n"
    return h, p, allnames


VALUE_NS = dict(P=P, P3=P3, Color=Color, ns=ns)


def subject_value(src):
    import hy.models

    return eval(src, dict(VALUE_NS, KW=hy.models.Keyword, __builtins__={}))  # noqa: S307 - sources come from the generator's pools


def run_side(code, subject_src, log):
    env = base_ns(log)
    env["S"] = subject_value(subject_src)
    try:
        exec(code, env)  # noqa: S102
    except RecursionError:
        raise
    except Exception as e:  # noqa
        return ("raise", type(e).__name__), env
    return ("ok", env["OUT"]), env


def expressible(p, positional=False):
    """Hy's pattern syntax cannot write :as on an :as pattern, nor a keyword pattern as a positional class argument"""
    k = p[0]
    if k == "as":
        return p[1][0] != "as" and expressible(p[1], positional)
    if k == "kw":
        return not positional and p[1] in ("foo", "bar")
    if k == "seq":
        return p[1] in ("list", "tuple") and all(expressible(x) for x in p[2])
    if k == "map":
        return all(expressible(v) for _, v in p[1])
    if k == "cls":
        return p[1] in ("P", "P3", "int", "str", "list", "dict") and all(expressible(x, True) for x in p[2]) and all(expressible(v) for _, v in p[3])
    if k == "or":
        return all(expressible(x) for x in p[1])
    return True


def check_case(case):
    import hy
    import hy.compiler

    if not all(expressible(c["pat"]) for c in case.get("cases", [])):
        return None

    try:
        hsrc, psrc, allnames = render(case)
        subject_value(case["subject"])
    except Exception:
        return None  # a shrunk case that is no longer a case
    detail = dict(hy=hsrc, python=psrc, subject=case["subject"])
    try:
        pcode = compile(psrc, "<c08-ref>", "exec")
        prej = None
    except SyntaxError as e:
        pcode, prej = None, str(e)[:120]
    try:
        import types

        module = types.ModuleType("c08mod")
        tree = hy.compiler.hy_compile(hy.read_many(hsrc), module, filename="<c08>", source=hsrc)
        hcode = compile(tree, "<c08>", "exec")
        hrej = None
    except SyntaxError as e:
        hcode, hrej = None, "%s: %s" % (type(e).__name__, str(getattr(e, "msg", e))[:120])
    except RecursionError:
        raise
    except Exception as e:  # noqa
        detail["error"] = "%s: %s" % (type(e).__name__, str(e)[:200])
        return ("compiler-crash:" + type(e).__name__, detail)
    if (hrej is None) != (prej is None):
        detail.update(hy_rejection=hrej, python_rejection=prej)
        return ("rejected-by-%s-only" % ("hy" if hrej else "python"), detail)
    if hrej is not None:
        return None
    hlog, plog = [], []
    ho, henv = run_side(hcode, case["subject"], hlog)
    po, penv = run_side(pcode, case["subject"], plog)
    tag = "cases-%d" % min(len(case["cases"]), 2)
    if ho[0] != po[0] or (ho[0] == "raise" and ho[1] != po[1]):
        detail.update(hy_outcome=repr(ho)[:200], python_outcome=repr(po)[:200])
        return ("outcome-kind-differs:" + tag, detail)
    if ho[0] == "ok":
        hr, hns = ho[1]
        pr, pns = po[1]
        if repr(hr) != repr(pr):
            detail.update(hy_result=repr(hr), python_result=repr(pr))
            sel = case["cases"][pr[0]] if isinstance(pr, list) and pr else {}
            return ("selected-case-or-value-differs:use-%s:body-%s" % (case.get("use", "setv"), sel.get("body", "none")), detail)
        if isinstance(pr, list) and pr:
            sel = case["cases"][pr[0]]
            for n in dedupe(captures(sel["pat"])):
                hv, pv = hns.get(n, "<unbound>"), pns.get(n, "<unbound>")
                if repr(hv) != repr(pv):
                    detail.update(name=n, hy_value=repr(hv), python_value=repr(pv))
                    return ("bound-name-differs:" + sel["pat"][0], detail)
    if hlog != plog:
        detail.update(hy_log=hlog, python_log=plog)
        return ("guard-or-effect-log-differs", detail)
    return None


# ------------------------------------------------------------------ generation
LITS = ["0", "1", "2", "-1", "2.5", "3j", "1+2j", "'a'", "'b'", "''", "b'x'", "None", "True", "False"]
KEYS = ["'k'", "'m'", "1", "'z'"]
RANDOM_VALUES = LITS + [
    "[]", "[1]", "[1, 2]", "[1, 2, 3]", "(1, 2)", "('a', 1)", "[[1], 2]", "{}", "{'k': 1}", "{'k': 1, 'm': 2}", "{'k': [1, 2], 'z': 0}",
    "P(1, 2)", "P(2, 1)", "P('a', [1])", "P(P(1, 2), 0)", "P3(1, 2, 3)", "Color.RED", "Color.GREEN", "KW('foo')", "KW('bar')", "'foo'",
    "1.0", "[1, [2, 3]]", "(1,)", "[None]", "{1: 'a'}",
]


def strategies():
    from hypothesis import strategies as st

    @st.composite
    def case(draw):
        counter = [0]

        def fresh():
            counter[0] += 1
            return "n%d" % counter[0]

        def pat(d, allow_irrefutable=True):
            kinds = ["lit", "lit", "cap", "val", "kw"]
            if allow_irrefutable:
                kinds += ["wild"]
            if d > 0:
                kinds += ["seq", "seq", "map", "cls", "cls", "or", "as"]
            k = draw(st.sampled_from(kinds))
            if k == "lit":
                return ["lit", draw(st.sampled_from(LITS))]
            if k == "cap":
                return ["cap", fresh()] if allow_irrefutable else ["lit", draw(st.sampled_from(LITS))]
            if k == "wild":
                return ["wild"]
            if k == "val":
                return ["val", draw(st.sampled_from(["Color.RED", "Color.GREEN", "ns.Color.RED", "ns.Color.GREEN"]))]
            if k == "kw":
                return ["kw", draw(st.sampled_from(["foo", "bar"]))]
            if k == "seq":
                n = draw(st.integers(0, 3))
                items = [pat(d - 1) for _ in range(n)]
                if draw(st.integers(0, 2)) == 0:
                    items.insert(draw(st.integers(0, len(items))), ["star", draw(st.sampled_from(["_", fresh()]))])
                return ["seq", draw(st.sampled_from(["list", "tuple"])), items]
            if k == "map":
                keys = draw(st.lists(st.sampled_from(KEYS), max_size=2, unique=True))
                return ["map", [[key, pat(d - 1)] for key in keys], fresh() if draw(st.integers(0, 2)) == 0 else None]
            if k == "cls":
                c = draw(st.sampled_from(["P", "P", "P3", "int", "str", "list", "dict"]))
                if c == "P":
                    shape = draw(st.integers(0, 3))
                    if shape == 0:
                        return ["cls", "P", [positional(pat(d - 1)), positional(pat(d - 1))], []]
                    if shape == 1:
                        return ["cls", "P", [positional(pat(d - 1))], [["y", pat(d - 1)]]]
                    if shape == 2:
                        return ["cls", "P", [], [["y", pat(d - 1)], ["x", pat(d - 1)]]]
                    return ["cls", "P", [], []]
                if c == "P3":
                    npos = draw(st.integers(0, 3))
                    kws = ["a", "b", "c"][npos:]
                    kws = kws[: draw(st.integers(0, len(kws)))]
                    return ["cls", "P3", [positional(pat(d - 1)) for _ in range(npos)], [[kw, pat(d - 1)] for kw in kws]]
                return ["cls", c, [positional(pat(d - 1))] if draw(st.integers(0, 2)) == 0 else [], []]
            if k == "or":
                n = draw(st.integers(2, 3))
                alts = [pat(0, allow_irrefutable=False) if draw(st.booleans()) else no_capture(d - 1) for _ in range(n)]
                return ["or", alts]
            if k == "as":
                inner = pat(d - 1, allow_irrefutable=draw(st.integers(0, 3)) == 0)
                if inner[0] == "as":  # Hy's pattern syntax has no grouping: (p :as a) :as b cannot be written
                    inner = inner[1]
                return ["as", inner, fresh()]

        def positional(p):
            """a keyword pattern cannot be a positional class sub-pattern in Hy's syntax (it would read as an attribute name)"""
            q = p
            while q[0] == "as":
                q = q[1]
            return ["lit", "'kw'"] if q[0] == "kw" else p

        def no_capture(d):
            k = draw(st.sampled_from(["lit", "val", "seq", "cls", "kw"] if d > 0 else ["lit", "val", "kw"]))
            if k == "lit":
                return ["lit", draw(st.sampled_from(LITS))]
            if k == "val":
                return ["val", draw(st.sampled_from(["Color.RED", "Color.GREEN"]))]
            if k == "kw":
                return ["kw", draw(st.sampled_from(["foo", "bar"]))]
            if k == "seq":
                return ["seq", draw(st.sampled_from(["list", "tuple"])), [no_capture(d - 1) for _ in range(draw(st.integers(0, 2)))]]
            return ["cls", draw(st.sampled_from(["int", "str", "P"])), [], []]

        def irrefutable(p):
            return p[0] in ("cap", "wild") or (p[0] == "as" and irrefutable(p[1])) or (p[0] == "or" and any(irrefutable(x) for x in p[1]))

        n = draw(st.integers(0, 4)) if draw(st.integers(0, 19)) == 0 else draw(st.integers(1, 4))
        cases = []
        gid = 0
        for i in range(n):
            p = pat(draw(st.integers(0, 3)))
            g = None
            if draw(st.integers(0, 2)) == 0:
                gid += 1
                g = [draw(st.sampled_from(["plain", "stmt"])), gid, draw(st.sampled_from(["True", "False", "True"])), 500 + gid]
            if irrefutable(p) and g is None and i != n - 1 and draw(st.integers(0, 9)):
                p = ["seq", "list", [p]]  # keep it refutable unless we want the (rare) illegal form
            cases.append(dict(pat=p, guard=g, body=draw(st.sampled_from(["plain", "plain", "ifdo", "try", "nested", "plain", "plain", "ifdo", "try", "nested",
                                                                   "nested-ifdo", "nested-try", "nested2", "ifdo-else"]))))
        # rare illegal mutations: duplicate capture, alternatives with different names
        m = draw(st.integers(0, 39))
        # (Hypothesis favours the ends of an integer range, so the rare branches sit in the middle of it)
        if m == 13 and cases:
            cases[0]["pat"] = ["seq", "list", [["cap", "dup"], ["cap", "dup"]]]
        elif m == 22 and cases:
            cases[0]["pat"] = ["or", [["cap", "p"], ["seq", "list", [["cap", "q"]]]]]
        elif m == 29 and cases:
            cases[0]["pat"] = ["map", [["'k'", ["wild"]], ["'k'", ["wild"]]], None]

        def inst(p):
            k = p[0]
            if k == "lit":
                return p[1]
            if k in ("cap", "wild"):
                return draw(st.sampled_from(RANDOM_VALUES))
            if k == "val":
                return p[1].replace("ns.", "")
            if k == "kw":
                return "KW(%r)" % p[1]
            if k == "seq":
                items = []
                for x in p[2]:
                    if x[0] == "star":
                        items += [draw(st.sampled_from(LITS)) for _ in range(draw(st.integers(0, 2)))]
                    else:
                        items.append(inst(x))
                if draw(st.booleans()):
                    return "[" + ", ".join(items) + "]"
                return "(" + ", ".join(items) + ("," if len(items) == 1 else "") + ")"
            if k == "map":
                items = ["%s: %s" % (key, inst(v)) for key, v in p[1]]
                if draw(st.booleans()):
                    items.append("'extra': 9")
                return "{" + ", ".join(items) + "}"
            if k == "cls":
                if p[1] == "P":
                    vals = dict(x=draw(st.sampled_from(LITS)), y=draw(st.sampled_from(LITS)))
                    for name, sub in zip(("x", "y"), p[2]):
                        vals[name] = inst(sub)
                    for kw, sub in p[3]:
                        vals[kw] = inst(sub)
                    return "P(%s, %s)" % (vals["x"], vals["y"])
                if p[1] == "P3":
                    vals = {a: draw(st.sampled_from(LITS)) for a in "abc"}
                    for name, sub in zip("abc", p[2]):
                        vals[name] = inst(sub)
                    for kw, sub in p[3]:
                        vals[kw] = inst(sub)
                    return "P3(%s, %s, %s)" % (vals["a"], vals["b"], vals["c"])
                pool = {"int": ["0", "1", "7", "True"], "str": ["'a'", "''", "'foo'"], "list": ["[]", "[1, 2]"], "dict": ["{}", "{'k': 1}"]}[p[1]]
                if p[2] and p[2][0][0] == "lit":
                    return p[2][0][1]
                return draw(st.sampled_from(pool))
            if k == "or":
                return inst(draw(st.sampled_from(p[1])))
            if k == "as":
                return inst(p[1])
            return "None"

        mode = draw(st.integers(0, 5))
        if cases and mode <= 3:
            subject = inst(draw(st.sampled_from(cases))["pat"])
            if mode == 3:  # mutate: wrap, or swap for a near value
                subject = draw(st.sampled_from(["[%s]" % subject, "(%s, 1)" % subject, subject.replace("1", "2", 1), subject.replace("'a'", "'b'", 1), "P(%s, 0)" % subject]))
        else:
            subject = draw(st.sampled_from(RANDOM_VALUES))
        return dict(cases=cases, subject=subject, use=draw(st.sampled_from(["setv", "setv", "arg", "let"])),
                    scope=draw(st.sampled_from(["module", "function"])))

    return case()


def shard(ctx):
    S = strategies()

    def one(case):
        r = check_case(case)
        cls = []
        nt = False
        for c in case["cases"]:
            cls.append("pattern:" + c["pat"][0])
            if c.get("guard"):
                cls.append("guard:" + c["guard"][0])
                nt = True
            if depth(c["pat"]) >= 2 or c["pat"][0] in ("or", "as"):
                nt = True
            cls.append("body:" + c.get("body", "plain"))
        cls.append("use:" + case.get("use", "setv"))
        cls.append("scope:" + case.get("scope", "module"))
        # which case was selected (from the reference side only)
        try:
            hsrc, psrc, _ = render(case)
            log = []
            out, _env = run_side(compile(psrc, "<ref>", "exec"), case["subject"], log)
            if out[0] == "ok":
                res = out[1][0]
                cls.append("selected:none" if res is None else "selected:case-%d" % res[0])
            else:
                cls.append("selected:raise-" + out[1])
        except SyntaxError:
            cls.append("selected:rejected-at-compile-time")
            hsrc = "?"
        ctx.case(key=(hsrc, case["subject"]), nontrivial=nt, cls=sorted(set(cls)), sample=hsrc.replace("\n", " ")[:300] + "   ; S = " + case["subject"])
        if r is not None:
            ctx.fail(case, r[0], r[1])

    ctx.hyp(S, one, ctx.per_shard(8000, 400000), "cases")


MATCHERS = {}
