"""C26 Model constructors accept exactly what Hy syntax can express.

Symbol(s) succeeds <=> reading s yields exactly that one symbol; Keyword(s) succeeds <=> reading ':' + s yields exactly that one
keyword; String(s, brackets=d) (d without square brackets) succeeds <=> '#[' d '[' s ']' d ']' reads back as s.
"""
import itertools

PROP = "C26"
RULE = (
    "cases (kind, s[, d]). (1) enumerated: every string of length <= 2 (thorough: <= 3) over a 40-character alphabet of "
    "syntax-significant characters (the 11 identifier-ending delimiters, ':', '#', '@', '.', ',', '_', '-', '+', backslash, '^', "
    "'*', the six ASCII spaces, U+001C, U+0085, U+00A0, U+2009, '0', '1', 'a', 'j', 'e', 'N', 'x', 'f'), each as Symbol(s) and as "
    "Keyword(s); and String(s, brackets=d) for d = '' or one alphabet character other than '[' ']' (plus 'f-', 'f-x', '==') with "
    "every s of length <= 2 (thorough: additionally d of length <= 2 and s of length <= 3 over a 12-character bracket alphabet); "
    "the enumeration is split over the shards by index. (2) Hypothesis-drawn (integer piece codes plus a short arbitrary Unicode text, assembled "
    "deterministically): names of 0..6 pieces (alphabet characters, identifier characters, any Unicode character, number-like "
    "fragments such as 1e5 0x1f NaN Inf 1+2j, dot patterns) for Symbol/Keyword; bracket delimiters without '[' ']' (empty, '=', "
    "'x', 'f', 'f-x', 't', spaces, newlines, Unicode, up to 4 characters) with contents built from plain text, the delimiter, ']', "
    "']'+prefix of the delimiter, the closer minus its last bracket, the whole closer, LF/CR/CRLF in front or inside, braces, "
    "'['. Oracle: the constructor succeeds (returns the model carrying s) exactly when iterating "
    "hy.read_many(text) yields exactly one form, without an exception, of the constructor's type, with text s (and brackets d). "
    "Non-trivial = s contains an identifier-ending delimiter, a dot, a space character (ASCII or not), a leading ':' or '#', or "
    "is number-like (Symbol/Keyword); s contains ']', CR or LF, or d is 'f'/'f-...' (String). Distinct by (kind, s, d)"
)
ASSUMPTIONS = [
    "reading means hy.read_many(text) with a fresh default HyReader (no user reader macros, bracketed-templates pragma off), iterated to the end",
    "a constructor 'succeeds' when it returns without raising; any exception it raises counts as not succeeding",
    "the spec model of bracket-string reading in this module is used only to name the root cause of a disagreement, never to decide one",
]

NON_IDENT = "()[]{};\"'`~"
ASCII_WS = " \t\n\r\x0c\x0b"
OTHER_WS = "\x1c\x85\xa0\u2009"
ALPHABET = NON_IDENT + ":#@" + ".,_-+\\^*" + ASCII_WS + OTHER_WS + "01ajeNxf"
assert len(ALPHABET) == 40 and len(set(ALPHABET)) == 40
BR_ALPHABET = "][af-\n\r{}x\" "  # thorough-tier bracket enumeration
assert len(set(BR_ALPHABET)) == 12
EXTRA_DELIMS = ["f-", "f-x", "=="]
BUDGET_QUICK = 900  # bounded by case counts (about 10 s on 16 idle cores); the time budget is only a guard for a loaded machine
BUDGET_THOROUGH = 6000


# -- running one case ----------------------------------------------------------


def text_of(case):
    k = case["kind"]
    if k == "symbol":
        return case["s"]
    if k == "keyword":
        return ":" + case["s"]
    if k == "string":
        return "#[" + case["d"] + "[" + case["s"] + "]" + case["d"] + "]"
    raise ValueError("unknown kind %r" % (k,))


def construct(case):
    """-> (model | None, error type name | None)."""
    import hy.models as M

    kind, s, d = case["kind"], case["s"], case.get("d")
    if kind not in ("symbol", "keyword", "string") or not isinstance(s, str):
        raise ValueError("malformed case %r" % (case,))
    try:  # only the constructor call is guarded
        if kind == "symbol":
            return M.Symbol(s), None
        if kind == "keyword":
            return M.Keyword(s), None
        return M.String(s, brackets=d), None
    except Exception as e:  # noqa: a constructor that raises has not succeeded, whatever it raises
        return None, type(e).__name__


def observe(text):
    """Read the whole text; -> (forms read before any error, error type name | None)."""
    import hy

    forms, err = [], None
    try:
        for m in hy.read_many(text):
            forms.append(m)
    except Exception as e:  # noqa: any reader failure means the text does not read as the model
        err = type(e).__name__
    return forms, err


def is_the_model(kind, m, s, d):
    import hy.models as M

    if kind == "symbol":
        return type(m) is M.Symbol and str.__eq__(m, s)
    if kind == "keyword":
        return type(m) is M.Keyword and m.name == s
    return type(m) is M.String and str.__eq__(m, s) and m.brackets == d


def obs_kind(kind, forms, err, s, d):
    if err is not None:
        return "error:" + err
    if not forms:
        return "nothing"
    if len(forms) > 1:
        return "several-forms"
    m = forms[0]
    want = {"symbol": "Symbol", "keyword": "Keyword", "string": "String"}[kind]
    if type(m).__name__ != want:
        return "other-model:" + type(m).__name__
    return "the-model" if is_the_model(kind, m, s, d) else "other-text"


def char_classes(kind, s):
    out = []
    if not s:
        out.append("empty")
    if any(c in NON_IDENT for c in s):
        out.append("delimiter")
    if any(c in ASCII_WS for c in s):
        out.append("ascii-space")
    if any(c.isspace() and c not in ASCII_WS for c in s):
        out.append("other-space")
    if "." in s:
        out.append("dot")
    if s[:1] in (":", "#") and s:
        out.append("lead-" + ("colon" if s[0] == ":" else "hash"))
    if numeric_like(s):
        out.append("number-like")
    return out


def main_class(kind, s):
    """One class per string for bucket names (a root-cause proxy, so that one defect does not fan out over every combination
    of features): the first that applies, most specific syntax first."""
    cc = char_classes(kind, s)
    for c in ("empty", "delimiter", "ascii-space", "dot", "lead-colon", "lead-hash", "number-like", "other-space"):
        if c in cc:
            return c
    return "plain"


def numeric_like(s):
    t = s.lstrip("+-")
    return bool(t) and (t[0].isdigit() or (t[0] == "." and t[1:2].isdigit()) or t[:3] in ("NaN", "Inf"))


def describe(forms, err):
    return dict(forms=[repr(m)[:120] for m in forms[:3]], error=err)


# -- spec model of bracket-string reading (root-cause naming only) ---------------


def is_f_delim(d):
    return d == "f" or d.startswith("f-")


def string_model(s, d):
    """What docs/syntax.rst says '#[d[s]d]' is: the content runs to the first ']d]'; one leading newline (LF, CR or CRLF) is
    dropped; remaining CR/CRLF become LF. -> (reasons why the content differs from s, predicted value of the first form,
    whether text is left over after it)."""
    closer = "]" + d + "]"
    full = s + closer
    p = full.find(closer)
    reasons = []
    if p < len(s):
        reasons.append("closer-inside-content" if closer in s else "closer-overlaps-end-of-content")
    body = full[:p]
    rest = body
    if rest[:1] == "\r":
        rest = rest[1:]
    if rest[:1] == "\n":
        rest = rest[1:]
    value = rest.replace("\r\n", "\n").replace("\r", "\n")
    if "\r" in rest or body[:1] == "\r":
        reasons.append("carriage-return")
    if body[:1] == "\n":
        reasons.append("leading-newline")
    return reasons, value, p < len(s)


def string_tag(s, d, forms, err):
    """Root cause of 'String(s, brackets=d) accepted, text does not read back as s'."""
    import hy.models as M

    if is_f_delim(d):
        return "f-delimiter"  # syntax.rst: such a bracket string "is interpreted as an f-string"
    reasons, value, leftover = string_model(s, d)
    first_ok = bool(forms) and type(forms[0]) is M.String and str.__eq__(forms[0], value) and forms[0].brackets == d
    if not first_ok and ("]" + d + "]") in value + "]" + d and not forms and err == "LexException":
        # CR normalisation produced a content that contains, or runs into, the closer (d has a LF where s has a CR). The reader
        # builds its result through this same constructor, which may refuse such a value: nothing is read, the reader reports
        # the refusal as a syntax error
        first_ok, leftover = True, True
    explained = reasons and first_ok and (leftover or (len(forms) == 1 and err is None))
    if not explained:
        return "unexplained"
    return reasons[0]


# -- the check -------------------------------------------------------------------


def evaluate(case):
    """-> (None | (bucket, detail), constructor succeeded?, what the text read as)."""
    kind, s = case["kind"], case["s"]
    d = case.get("d")
    if kind == "string" and (not isinstance(d, str) or "[" in d or "]" in d):
        raise ValueError("delimiter with a square bracket is outside the property: %r" % (d,))
    text = text_of(case)
    model, cerr = construct(case)
    forms, rerr = observe(text)
    ok = obs_kind(kind, forms, rerr, s, d)
    readable = ok == "the-model"
    accepted = model is not None
    if accepted and not is_the_model(kind, model, s, d):
        return (kind + ":constructor-returned-another-object", dict(s=s, d=d, got=repr(model)[:200])), accepted, ok
    if accepted == readable:
        return None, accepted, ok
    if not accepted and kind != "string":
        m = minimal_name(kind, s, False)
        res = (
            "%s:rejected-but-readable:%s" % (kind, main_class(kind, m)),
            dict(s=s, d=d, text=text, constructor=cerr, read=describe(forms, rerr), smallest_name_failing_the_same_way=m),
        )
    elif not accepted:
        res = (
            "string:rejected-but-readable:" + ("closer-inside-content" if "]" + d + "]" in s else "no-closer-in-content"),
            dict(s=s, d=d, text=text, constructor=cerr, read=describe(forms, rerr)),
        )
    elif kind == "string":
        res = (
            "string:accepted-but-unreadable|" + string_tag(s, d, forms, rerr),
            dict(s=s, d=d, text=text, expected="ValueError from String(%r, brackets=%r)" % (s, d), read=describe(forms, rerr)),
        )
    else:
        m = minimal_name(kind, s, True)
        res = (
            "%s:accepted-but-unreadable:%s" % (kind, main_class(kind, m)),
            dict(s=s, d=d, text=text, expected="ValueError from the constructor", reads_as=ok, read=describe(forms, rerr),
                 smallest_name_failing_the_same_way=m),
        )
    return res, accepted, ok


def disagrees(kind, s, accepted):
    """Does Symbol/Keyword(s) disagree with the reader in the given direction?"""
    case = dict(kind=kind, s=s)
    model, _ = construct(case)
    if (model is not None) != accepted:
        return False
    forms, rerr = observe(text_of(case))
    return (obs_kind(kind, forms, rerr, s, None) == "the-model") != accepted


def minimal_name(kind, s, accepted):
    """Greedy deletion of characters while the same kind of disagreement remains: the bucket is named after what is left, so that
    one defect does not fan out over the features of the strings it was found in. Only used to name a failure."""
    changed = True
    while changed and len(s) > 0:
        changed = False
        for i in range(len(s)):
            cand = s[:i] + s[i + 1:]
            if disagrees(kind, cand, accepted):
                s, changed = cand, True
                break
    return s


def check_case(case):
    return evaluate(case)[0]


def classify(case, model_ok, ok):
    kind, s = case["kind"], case["s"]
    if kind == "string":
        d = case["d"]
        reasons, _, _ = string_model(s, d)
        cls = ["string:" + ("accepted" if model_ok else "rejected"), "string:reads:" + ok.split(":")[0]]
        cls += ["string:" + r for r in reasons]
        if is_f_delim(d):
            cls.append("string:f-delimiter")
        if "]" in s:
            cls.append("string:content-has-]")
            if d and ("]" + d[:1]) in s:
                cls.append("string:content-has-partial-closer")
        if d == "":
            cls.append("string:empty-delimiter")
        nt = "]" in s or "\r" in s or "\n" in s or is_f_delim(d)
        return cls, nt
    cc = char_classes(kind, s)
    cls = [kind + ":" + ("accepted" if model_ok else "rejected"), kind + ":reads:" + ok] + [kind + ":has:" + c for c in cc]
    return cls, bool(cc)


# -- enumeration -------------------------------------------------------------------


def short_strings(alphabet, maxlen):
    for n in range(maxlen + 1):
        for t in itertools.product(alphabet, repeat=n):
            yield "".join(t)


def enumerated_cases(tier):
    """Deterministic order; the same list in every shard."""
    quick = tier == "quick"
    for s in short_strings(ALPHABET, 2 if quick else 3):
        yield dict(kind="symbol", s=s)
        yield dict(kind="keyword", s=s)
    delims = [""] + [c for c in ALPHABET if c not in "[]"] + EXTRA_DELIMS
    for d in delims:
        for s in short_strings(ALPHABET, 2):
            yield dict(kind="string", s=s, d=d)
    if not quick:
        seen = set(delims)
        for d in short_strings([c for c in BR_ALPHABET if c not in "[]"], 2):
            for s in short_strings(BR_ALPHABET, 3):
                if d in seen and len(s) <= 2 and all(c in ALPHABET for c in s):
                    continue  # already enumerated above
                yield dict(kind="string", s=s, d=d)


# -- drawn cases ---------------------------------------------------------------------

IDENT_CHARS = "abcxyzNIjeEfrbt_-+*/<>=!?$%&|^@,0123456789"
FRAGMENTS = [
    "1", "12", "1e5", "1E-3", "0x1f", "0b1", "0o7", "NaN", "Inf", "-Inf", "nan", "inf", "1+2j", "1j", "j", "J", "1.5", ".5", "5.",
    "1_0", "1,0", "_1", ",1", "--", "->", "...", "..", ".", "a.b", ".a", "a.", "a..b", "None", "True", "#*", "#_", "#^", "#[", "~@",
    "hyx_", "é", "λ", "✈", "\U0001f991",
]


DELIM_PRESETS = ["", "", "", "=", "==", "x", "xx", "f", "f-", "f-x", "ff", "-f", "xf", "t", "t-x", " ", "\n", "a.b", ":", ";", "\"", "#", "{", "\r"]
DELIM_CHARS = "=xf-t a.:;\"#\n\r{}=x"


def _sym_table():
    tab = []
    for i in range(256):
        if i < 110:
            tab.append(IDENT_CHARS[i % len(IDENT_CHARS)])
        elif i < 190:
            tab.append(ALPHABET[(i - 110) % len(ALPHABET)])
        elif i < 190 + len(FRAGMENTS):
            tab.append(FRAGMENTS[i - 190])
        else:
            tab.append(None)  # a character from the drawn Unicode text
    return tab


SYM_TABLE = _sym_table()
assert 190 + len(FRAGMENTS) < 250


def build_symkw(kind, codes, uni):
    """Deterministic assembly of a name from drawn integers (cheap to draw) and drawn Unicode characters."""
    u = list(uni)
    out = []
    for c in codes:
        piece = SYM_TABLE[c]
        if piece is None:
            piece = u.pop() if u else "\u03bb"
        out.append(piece)
    return dict(kind=("symbol", "keyword")[kind], s="".join(out))


def build_bracket(dsel, dcodes, lead, body, tail, uni):
    u = list(uni)

    def unichar():
        return u.pop() if u else "\u00e9"

    if dsel < len(DELIM_PRESETS):
        d = DELIM_PRESETS[dsel]
    else:
        d = "".join(DELIM_CHARS[c] if c < len(DELIM_CHARS) else unichar() for c in dcodes)
    d = d.replace("[", "").replace("]", "")
    closer = "]" + d + "]"
    plain = ["a", "b", "x", " ", "=", "f", "-", d, d[:1], d[-1:]]
    fixed = ["]", "]", "[", "]]", "{", "}", "{a}", "\"", "\\", "#", ";"]
    newlines = ["\n", "\r", "\r\n", "\n\n", "\n\r"]
    out = [["", "", "", "\n", "\r", "\r\n", "\n\n", ""][lead]]
    for c in body:
        if c < 10:
            out.append(plain[c])
        elif c < 21:
            out.append(fixed[c - 10])
        elif c < 27:
            out.append("]" + d[: (c - 21) % (len(d) + 1)])  # ']' + a prefix of the delimiter
        elif c < 31:
            out.append("]" + d)  # the closer minus its last bracket
        elif c < 34:
            out.append(closer)  # the whole closer: the constructor has to refuse
        elif c < 39:
            out.append(newlines[c - 34])
        elif c < 42:
            out.append(unichar())
        else:
            out.append(plain[c % 10])
    out.append(["", "", "", "]", "]" + d, "]" + d[:1], "]" + d[: len(d) // 2], ""][tail])
    return dict(kind="string", s="".join(out), d=d)


def strategies():
    from hypothesis import strategies as st

    uni = st.text(max_size=2)
    symkw = st.builds(build_symkw, st.integers(0, 1), st.lists(st.integers(0, 255), max_size=6), uni)
    bracket = st.builds(
        build_bracket,
        st.integers(0, len(DELIM_PRESETS) + 7),
        st.lists(st.integers(0, len(DELIM_CHARS) + 3), max_size=4),
        st.integers(0, 7),
        st.lists(st.integers(0, 63), max_size=5),
        st.integers(0, 7),
        uni,
    )
    return st.one_of(symkw, bracket)


# -- shard ------------------------------------------------------------------------------


def shard(ctx):
    # (1) enumerated sub-domain, split by index
    n_ev = n_nt = 0
    kinds = {}
    for i, case in enumerate(enumerated_cases(ctx.tier)):
        if i % ctx.n != ctx.k:
            continue
        r, accepted, ok = evaluate(case)
        cls, nt = classify(case, accepted, ok)
        n_ev += 1
        n_nt += bool(nt)
        for c in cls[:2]:
            kinds["enum:" + c] = kinds.get("enum:" + c, 0) + 1
        if r is not None:
            ctx.fail(case, r[0], r[1])
    ctx.bulk(n_ev, n_nt, cls="enumerated-short-strings")
    for c in sorted(kinds):
        ctx.count(c, kinds[c])
    ctx.samples.setdefault("enumerated-short-strings", []).append(
        "all strings of length <= %d over %r as Symbol and Keyword; bracket strings with short delimiters; indices = %d mod %d"
        % (2 if ctx.quick else 3, ALPHABET, ctx.k, ctx.n))

    # (2) drawn cases
    def one(case):
        r, accepted, ok = evaluate(case)
        cls, nt = classify(case, accepted, ok)
        ctx.case(key=(case["kind"], case["s"], case.get("d")), nontrivial=nt, cls=cls,
                 sample="%s s=%r%s" % (case["kind"], case["s"], "" if case.get("d") is None else " d=%r" % case["d"]))
        if r is not None:
            ctx.fail(case, r[0], r[1])

    ctx.hyp(strategies(), one, ctx.per_shard(30000, 1200000), "drawn")


def EXHAUSTIVE(tier):
    return False  # only the short-string sub-domain is enumerated; the property quantifies over all strings


# -- shrinking: shorten s and d, then simplify characters ----------------------------------


def shrink(case, same, budget):
    calls = 0
    best = dict(case)
    improved = True
    while improved and calls < budget:
        improved = False
        for field in ("s", "d"):
            v = best.get(field)
            if not v:
                continue
            cands = [v[:i] + v[i + 1:] for i in range(len(v))]
            cands += [v[:i] + "a" + v[i + 1:] for i in range(len(v)) if v[i] != "a" and (ord(v[i]) > 126 or v[i].isalnum())]
            for c in cands:
                if calls >= budget:
                    break
                if field == "d" and ("[" in c or "]" in c):
                    continue
                cand = dict(best)
                cand[field] = c
                calls += 1
                try:
                    ok = same(cand)
                except Exception:
                    ok = False
                if ok:
                    best = cand
                    improved = True
                    break
            if improved:
                break
    return best


# -- known findings: root causes recognised from the bucket's tag -------------------------------
# The tag is computed by string_tag(): the read result has to agree with the documented reading of the text
# (content up to the first closer, one leading newline dropped, CR normalised), otherwise the tag is "unexplained".

MATCHERS = {
    "string_leading_newline": lambda case, bucket, detail: bucket == "string:accepted-but-unreadable|leading-newline",
    "string_carriage_return": lambda case, bucket, detail: bucket == "string:accepted-but-unreadable|carriage-return",
    "string_f_delimiter": lambda case, bucket, detail: bucket == "string:accepted-but-unreadable|f-delimiter",
}
