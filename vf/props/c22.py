"""C22 Numeric literals read like Python plus the documented extensions."""
import ast
import math
import struct

PROP = "C22"
RULE = (
    "numeric literal texts built structurally (ASCII): (a) Python's grammar -- decimal/hex/octal/binary integers with single "
    "underscores, point and exponent floats, imaginary numbers, optionally signed: expected value ast.literal_eval(text), type-exact, "
    "floats bit-exact; (b) Hy's documented extensions -- commas, repeated and trailing separators, separators after '.', 'e', radix "
    "prefix, leading zeros, NaN/Inf/-Inf, a+bj forms: expected value computed by construction (separators removed, evaluated by "
    "Python); (c) near misses -- leading separator, wrong-case nan/inf, bare j, 0x, 1e, 0b2, digits with trailing letters, lone signs, "
    "doubled signs, zeros in front of a radix prefix (00x10, 0_0b1): must read as exactly one Symbol with that text; interior-dot near misses (1.2.3, 0x1.5) must be a dotted form or "
    "a LexException, never a number. Non-trivial = class (b) or (c); distinct by text"
)
ASSUMPTIONS = ["CPython's ast.literal_eval/int/float/complex define the value of a Python numeric literal", "ASCII digits only (the docs do not discuss other Unicode digits)"]


def bits(x):
    return struct.pack(">d", x)


def same_value(kind, got, want):
    if kind == "int":
        return int(got) == want
    if kind == "float":
        g, w = float(got), want
        return (math.isnan(g) and math.isnan(w)) or bits(g) == bits(w)
    g, w = complex(got), want
    eq = lambda a, b: (math.isnan(a) and math.isnan(b)) or a == b  # "value equals Python's": the sign of a zero part is not compared
    return eq(g.real, w.real) and eq(g.imag, w.imag)


def check_case(case):
    import hy
    import hy.models as M

    text, expect = case["text"], case["expect"]
    try:
        ms = list(hy.read_many(text))
        err = None
    except Exception as e:  # noqa
        ms, err = None, e
    if expect[0] in ("int", "float", "complex"):
        kind = expect[0]
        dec = lambda t: float(t) if t in ("nan", "inf", "-inf") else float.fromhex(t)
        want = int(expect[1]) if kind == "int" else dec(expect[1]) if kind == "float" else complex(dec(expect[1][0]), dec(expect[1][1]))
        cls = {"int": M.Integer, "float": M.Float, "complex": M.Complex}[kind]
        if err is not None:
            return ("number-rejected:" + kind, dict(text=text, error=repr(err)[:160]))
        if len(ms) != 1 or type(ms[0]) is not cls:
            return ("number-wrong-type:" + kind, dict(text=text, got=[type(m).__name__ for m in ms], repr=[repr(m) for m in ms][:2]))
        if not same_value(kind, ms[0], want):
            return ("number-wrong-value:" + kind, dict(text=text, got=repr(ms[0]), expected=repr(want)))
        return None
    if expect[0] == "symbol":
        if err is not None:
            return ("symbol-rejected", dict(text=text, error=repr(err)[:160]))
        if len(ms) != 1 or type(ms[0]) is not M.Symbol or str(ms[0]) != text:
            return ("near-miss-read-as:" + (type(ms[0]).__name__ if ms else "nothing"), dict(text=text, got=[repr(m) for m in ms][:2]))
        return None
    # dotted near miss: anything but a number
    if err is not None:
        from hy.reader.exceptions import LexException

        return None if isinstance(err, LexException) else ("dotted-raised:" + type(err).__name__, dict(text=text))
    if len(ms) == 1 and isinstance(ms[0], (M.Integer, M.Float, M.Complex)):
        return ("dotted-near-miss-read-as-number", dict(text=text, got=repr(ms[0])))
    return None


def fhex(x):
    return "nan" if math.isnan(x) else "inf" if x == math.inf else "-inf" if x == -math.inf else x.hex()


def expect_from_python(text):
    v = ast.literal_eval(text)
    if isinstance(v, bool):
        raise ValueError
    if isinstance(v, int):
        return ["int", str(v)]
    if isinstance(v, float):
        return ["float", fhex(v)]
    return ["complex", [fhex(v.real), fhex(v.imag)]]


def strategies():
    from hypothesis import strategies as st

    digit = st.sampled_from("0123456789")
    nz = st.sampled_from("123456789")

    def grouped(chars, lo=1, hi=6):
        # digits with optional single underscores between them (Python's rule)
        return st.lists(st.tuples(chars, st.sampled_from(["", "", "", "_"])), min_size=lo, max_size=hi).map(
            lambda ps: "".join(c + u for c, u in ps).rstrip("_"))

    decint = st.one_of(st.just("0"), st.builds(lambda a, b: a + ("" if not b else ("_" if b[0] == "!" else "") + b.lstrip("!")), nz,
                                              st.one_of(st.just(""), grouped(digit, 1, 8), grouped(digit, 1, 8).map(lambda s: "!" + s))))
    hexint = st.builds(lambda p, u, d: p + u + d, st.sampled_from(["0x", "0X"]), st.sampled_from(["", "_"]), grouped(st.sampled_from("0123456789abcdefABCDEF"), 1, 6))
    octint = st.builds(lambda p, u, d: p + u + d, st.sampled_from(["0o", "0O"]), st.sampled_from(["", "_"]), grouped(st.sampled_from("01234567"), 1, 6))
    binint = st.builds(lambda p, u, d: p + u + d, st.sampled_from(["0b", "0B"]), st.sampled_from(["", "_"]), grouped(st.sampled_from("01"), 1, 8))
    digits = grouped(digit, 1, 5)
    expo = st.builds(lambda e, s, d: e + s + d, st.sampled_from("eE"), st.sampled_from(["", "+", "-"]), grouped(digit, 1, 3))
    pointfloat = st.one_of(st.builds(lambda a, b: a + "." + b, digits, digits), st.builds(lambda a: a + ".", digits), st.builds(lambda b: "." + b, digits))
    floatlit = st.one_of(pointfloat, st.builds(lambda a, e: a + e, st.one_of(digits, pointfloat), expo))
    imag = st.builds(lambda a, j: a + j, st.one_of(floatlit, digits), st.sampled_from("jJ"))
    sign = st.sampled_from(["", "", "-", "+"])
    pyreal = st.builds(lambda s, x: s + x, sign, st.one_of(decint, decint, hexint, octint, binint, floatlit, floatlit))
    pyimag = st.builds(lambda s, x: s + x, sign, imag)
    pycomplex = st.builds(lambda s, a, op, b: s + a + op + b, st.sampled_from(["", "-"]), st.one_of(floatlit, decint), st.sampled_from("+-"), imag)
    python = st.one_of(pyreal, pyreal, pyimag, pycomplex).map(lambda t: dict(text=t, expect=expect_from_python(t), cls="python"))

    # (b) extensions: sprinkle extra separators into a Python literal (never at position 0), leading zeros, NaN/Inf
    sep = st.sampled_from(["_", ",", "__", ",_", ",,"])

    @st.composite
    def extended(draw):
        base = draw(st.one_of(pyreal, pyimag, pycomplex))
        want = expect_from_python(base)
        t = base
        for _ in range(draw(st.integers(1, 3))):
            first = min(k for k, ch in enumerate(t) if ch.isdigit())  # separators before the first digit are forbidden
            i = draw(st.integers(first + 1, len(t)))
            t = t[:i] + draw(sep) + t[i:]
        return dict(text=t, expect=want, cls="extension:separators")

    leading0 = st.builds(lambda s, z, d: (s + z + d, s + d), sign, st.sampled_from(["0", "00", "000", "0_"]), grouped(digit, 1, 6)).map(
        lambda p: dict(text=p[0], expect=["int", str(int(p[1].replace("_", "")))], cls="extension:leading-zeros"))
    special = st.sampled_from([("NaN", "nan"), ("+NaN", "nan"), ("-NaN", "nan"), ("Inf", "inf"), ("+Inf", "inf"), ("-Inf", "-inf")]).map(
        lambda p: dict(text=p[0], expect=["float", p[1]], cls="extension:nan-inf"))
    specialc = st.sampled_from([("NaNj", ["0x0.0p+0", "nan"]), ("Infj", ["0x0.0p+0", "inf"]), ("1+Infj", ["0x1.0000000000000p+0", "inf"]),
                                ("NaN+1j", ["nan", "0x1.0000000000000p+0"]), ("-Inf-Infj", ["-inf", "-inf"]), ("5+4j", ["0x1.4000000000000p+2", "0x1.0000000000000p+2"])]).map(
        lambda p: dict(text=p[0], expect=["complex", p[1]], cls="extension:complex"))

    # (c) near misses
    word = st.sampled_from(["nan", "inf", "-inf", "NAN", "INF", "Nan", "iNF", "nAn", "infinity", "-infinity", "nanj", "infj", "1+nanj", "0x", "0X", "0b", "0o",
                            "0b2", "0o8", "0xg", "1e", "1e+", "1E-", "e5", "E5", "_1", ",1", "_", ",", "-", "+", "--1", "+-1", "-+1", "++1", "1+", "1-", "1j1", "1jj", "1ee5", "1e5e5",
                            "0x1p3", "12a", "1_a", "0b12", "0o78", "1__e", "1f", "1d", "1l", "1L", "0xFFg", "-_1", "-,1", "+_1", "1+2", "1-2", "1+2i", "j1", "1e5j5", "1_000x",
                            # NaN / Inf are words, not digit strings: a separator inside them comes "before the first digit" (docs/syntax.rst)
                            "In_f", "I,nf", "I_nf", "Na_N", "N_aN", "N,aN", "-In_f", "+Na_N", "-I,nf", "Na__N", "I_n_f", "In_fj", "1+In_fj"])
    near = word.map(lambda t: dict(text=t, expect=["symbol"], cls="near-miss"))
    genword = st.builds(lambda a, b: a + b, st.one_of(digits, hexint, floatlit.filter(lambda s: "." not in s)), st.sampled_from(["x", "g", "q", "ee", "e+", "jj", "j1", "k", "L", "_x"])).filter(
        lambda t: not _is_number(t)).map(lambda t: dict(text=t, expect=["symbol"], cls="near-miss"))
    # leading zeros are an extension for decimal integers only: zeros in front of a radix prefix do not make a number
    zradix = st.builds(lambda sg, z, r: sg + z + r, sign, st.sampled_from(["0", "00", "000", "0_", "0,", "0_0", "00_"]), st.one_of(hexint, octint, binint)).filter(
        lambda t: not _is_number(t)).map(lambda t: dict(text=t, expect=["symbol"], cls="near-miss:zeros-before-radix-prefix"))
    dotted = st.sampled_from(["1.2.3", "0x1.5", "1..2", "1.2e3.4", "1.a", "a.1", "1.2j.3", "1_0.2_0.3", ".5.5", "1.e5.0"]).map(lambda t: dict(text=t, expect=["dotted"], cls="near-miss:dotted"))
    return st.one_of(python, python, extended(), extended(), leading0, special, specialc, near, genword, dotted, zradix)


def _is_number(t):
    s = t[0] + t[1:].replace("_", "").replace(",", "") if len(t) > 1 else t
    for f in (lambda x: int(x, 0), lambda x: int(x, 10), float, complex):
        try:
            f(s)
            return True
        except ValueError:
            pass
    return False


def shard(ctx):
    def one(case):
        cls = case.pop("cls")
        ctx.case(key=case["text"], nontrivial=cls != "python", cls=cls, sample="%s => %s" % (case["text"], case["expect"]))
        r = check_case(case)
        if r is not None:
            ctx.fail(case, r[0], r[1])

    ctx.hyp(strategies(), one, ctx.per_shard(30000, 1000000), "literals")


def shrink(case, same, budget):
    return case


MATCHERS = {}
