"""C15 Loading a Hy module from cached bytecode behaves like compiling it; the file-extension rule."""
import copy
import json
import os
import shutil
import subprocess
import sys
import tempfile

from vf import c15_gen as G
from vf import core

PROP = "C15"
RULE = (
    "import cases: a generated package under .work/ (rendered as a pure function of the case JSON): 1..3 macro modules (macros of 5 body "
    "kinds whose expansion carries the defining module's name, reader macros, optional export list via (export ...) or _hy_export_macros, "
    "optional re-export through their own require, macros in a package __init__) and a main module whose items are require forms of every "
    "documented shape (bare, :as, [names :as alias], *, :macros [...], :readers [...]/*, package [submodule :as alias], several entries per "
    "form, relative .NAME / ..PKG.NAME / . [NAME], inside a function = local macros), uses of the required macros (expanded at compile time at "
    "top level and in functions; at run time through hy.eval of a quoted form / of hy.read text / with :macros (local-macros) / through "
    "get-macro / through a HyReader with use_current_readers; hy.R one-shot requires; hy.eval(..., module=M) from outside), public values of "
    "12 kinds (big ints, nan/inf/-0.0/complex, arbitrary unicode strings, bytes, keywords and quoted models, nested collections, f-strings, "
    "functions with defaults, classes, comprehensions, imports, destructuring) and optionally an Engine-A program whose effects are logged; "
    "no macro or reader-macro name is bound twice in one module. "
    "History, in a child interpreter that writes bytecode into a private PYTHONPYCACHEPREFIX: import from source -> forget (all modules of "
    "the case | only the main module | start a second interpreter) -> import again. Oracle: the source import works and gives what the "
    "macros' definitions say; it wrote a .pyc whose header matches the source's mtime and size; the second import compiled no source "
    "(observed at SourceFileLoader.source_to_code and through HY_MESSAGE_WHEN_COMPILING) and took the main module's code out of the .pyc "
    "(observed at importlib's _compile_bytecode); outcome, effect log, canonicalised public values, _hy_macros / _hy_reader_macros (keys and "
    "defining module of each macro) of every module of the case, and the results of all run-time probes are equal between the two imports. "
    "ext cases: one text that is a program in both languages (R tells which compiler handled it) stored under a generated file name; its "
    "code is obtained as `hy FILE` obtains it (HyLoader(name, path).get_code) and, when runhy.run_path works on this interpreter, through "
    "run_path; it must be handled by Hy exactly when os.path.splitext(name)[1] is not one of Python's own SOURCE_SUFFIXES. "
    "Non-trivial = import case with >= 1 require whose macro (or reader macro) is expanded at run time after a cached import that really "
    "came from the .pyc, or an ext case whose extension is not .hy; distinct by rendered files"
)
ASSUMPTIONS = [
    "'Python's other source suffixes' = importlib.machinery.SOURCE_SUFFIXES as read in the child before hy is imported (['.py'] on this platform); "
    "'extension' = os.path.splitext(basename)[1]",
    "modules that inspect or re-bind macro names while they are being executed (a later require shadowing an earlier one's name between two "
    "top-level run-time expansions) are outside the domain: the compile pass leaves the whole macro table in the module before its code runs, "
    "which is a compile-time side effect in the sense of the property",
    "hy FILE (hy.importer.runhy.run_path) raises ValueError on CPython 3.12.1 (runpy._get_code_from_file still takes two arguments there); the "
    "run_path leg of the extension rule is executed only when a probe shows run_path to work, otherwise it is counted as ext:run_path-blocked",
    "uses are generated only for macro names whose spelling the docs state; for the other shapes (relative bare require, hidden macros of a "
    "package [submodule] require) only the equality of the two macro tables is checked",
]
NSHARDS = 16
BUDGET_QUICK = 150
BUDGET_THOROUGH = 1500
BATCH = 40
RAISING_OK = ("XA", "XB", "XC", "XBOOM")

BASE = os.path.join(core.WORK, "c15")


def pyc_prefix():
    return os.path.join(BASE, "pyc-" + (os.environ.get("VF_TREE_HASH") or "x"))


def child_env():
    env = dict(os.environ)
    env.pop("PYTHONDONTWRITEBYTECODE", None)
    env["PYTHONPYCACHEPREFIX"] = pyc_prefix()
    env["HY_MESSAGE_WHEN_COMPILING"] = "1"
    env.setdefault("PYTHONHASHSEED", "0")
    return env


def run_child(jobs, rundir, tag):
    jp = os.path.join(rundir, "jobs-%s.json" % tag)
    op = os.path.join(rundir, "out-%s.json" % tag)
    with open(jp, "w") as f:
        json.dump(jobs, f)
    r = subprocess.run([sys.executable, "-m", "vf.c15worker", jp, op], env=child_env(), capture_output=True, text=True, cwd=core.ROOT)
    if r.returncode != 0:
        raise RuntimeError("C15 worker failed (exit %d): %s" % (r.returncode, r.stderr[-3000:]))
    with open(op) as f:
        return json.load(f)


def write_files(root, files):
    for rel, text in sorted(files.items()):
        p = os.path.join(root, rel)
        os.makedirs(os.path.dirname(p), exist_ok=True)
        with open(p, "w", encoding="utf-8") as f:
            f.write(text)


def ext_filename(case):
    return case["stem"] + case["ext"]


_pruned = []


def prune():
    """once per process: forget bytecode caches of older trees (keep 3) and run directories that a killed run left behind"""
    import time

    if _pruned:
        return
    _pruned.append(1)
    try:
        cur = os.path.basename(pyc_prefix())
        olds = sorted((d for d in os.listdir(BASE) if d.startswith("pyc-") and d != cur), key=lambda d: os.path.getmtime(os.path.join(BASE, d)))
        for d in olds[:-3]:
            shutil.rmtree(os.path.join(BASE, d), ignore_errors=True)
        for d in os.listdir(BASE):
            p = os.path.join(BASE, d)
            if d.startswith("r") and time.time() - os.path.getmtime(p) > 6 * 3600:
                shutil.rmtree(p, ignore_errors=True)
    except OSError:
        pass


def run_batch(cases):
    """-> per case: (rendered, result) where result is {"phases": [...]} for import cases and the worker's dict for ext cases"""
    os.makedirs(BASE, exist_ok=True)
    prune()
    rundir = tempfile.mkdtemp(prefix="r", dir=BASE)
    try:
        jobs1, jobs2, rendered = [], [], []
        for i, case in enumerate(cases):
            root = os.path.join(rundir, "c%d" % i)
            if case["kind"] == "ext":
                text = G.render_ext_case(case)
                d = os.path.join(root, case["dirname"])
                os.makedirs(d)
                path = os.path.join(d, ext_filename(case))
                with open(path, "w", encoding="utf-8") as f:
                    f.write(text)
                os.makedirs(os.path.join(root, "scratch"))
                rendered.append(dict(files={os.path.join(case["dirname"], ext_filename(case)): text}))
                jobs1.append(dict(kind="ext", id=i, path=path, stem=case["stem"], scratch=os.path.join(root, "scratch")))
                continue
            r = G.render_import_case(case)
            rendered.append(r)
            os.makedirs(root)
            write_files(root, r["files"])
            job = dict(kind="import", id=i, root=root, main=r["main"], modules=r["modules"], files=r["file_of"], drop=case["drop"],
                       ext_probes=[p[0] for p in case.get("ext_probes", [])])
            if case["drop"] == "process":
                jobs1.append(dict(job, phases=["fresh"]))
                jobs2.append(dict(job, phases=["cached"]))
            else:
                jobs1.append(dict(job, phases=["fresh", "cached"]))
        res = {}
        for o in run_child(jobs1, rundir, "1"):
            res[o["id"]] = o
        if jobs2:
            for o in run_child(jobs2, rundir, "2"):
                res[o["id"]]["phases"].extend(o["phases"])
        return [(rendered[i], res[i]) for i in range(len(cases))]
    finally:
        shutil.rmtree(rundir, ignore_errors=True)
        shutil.rmtree(os.path.join(pyc_prefix(), rundir.lstrip(os.sep)), ignore_errors=True)


# ----------------------------------------------------------------------------- judging


def origins(case):
    """call name -> shape tag of the require that introduced it (for bucket names)"""
    tabs = G.tables(case["mods"])
    org = {}
    for it in case["main"]["items"]:
        if it["t"] == "require":
            for e in it["entries"]:
                for n in G.apply_entry(e, case["mods"], tabs):
                    org[n] = entry_tag(e)
        elif it["t"] == "own":
            org[it["name"]] = "own-defmacro"
    return org


def entry_tag(e):
    t = e["shape"]
    if e.get("rel"):
        t += "+rel"
    if e.get("kw"):
        t += "+:macros"
    return t


def item_tag(case, key):
    """zuN / zp_N -> description of the item that defines it"""
    try:
        i = int(key.replace("zp_", "").replace("zu", ""))
        it = case["main"]["items"][i]
    except (ValueError, IndexError):
        return "?"
    if it["t"] == "localreq":
        return "local-require:" + entry_tag(it["entry"])
    if it["t"] == "use":
        if it["style"].startswith("reader"):
            return it["style"]
        if it["style"].startswith("hyR"):
            return it["style"]
        return "require:" + origins(case).get(it["call"], "?")  # the use style (rt, rtread, top ...) is in the detail, not in the bucket
    return it["t"]


def first_diff(a, b, path=""):
    if type(a) is not type(b):
        return path, a, b
    if isinstance(a, dict):
        for k in sorted(set(a) | set(b)):
            if k not in a or k not in b:
                return path + "/" + str(k), a.get(k, "<absent>"), b.get(k, "<absent>")
            d = first_diff(a[k], b[k], path + "/" + str(k))
            if d:
                return d
        return None
    if isinstance(a, list):
        if len(a) != len(b):
            return path + "/len", a, b
        for i, (x, y) in enumerate(zip(a, b)):
            d = first_diff(x, y, path + "/" + str(i))
            if d:
                return d
        return None
    return None if a == b else (path, a, b)


def clip(x, n=600):
    s = json.dumps(x, ensure_ascii=True, default=str)
    return s if len(s) <= n else s[:n] + "..."


def judge_import(case, rendered, res):
    """-> (failure | None, info) ; failure = (bucket, detail)"""
    info = dict(nontrivial=False)
    phases = {p["phase"]: p for p in res["phases"]}
    F, C = phases["fresh"], phases["cached"]
    main = rendered["main"]
    mainfile = None
    for name, pi in F["pyc"].items():
        if name == main:
            mainfile = pi["source"]
    src = lambda: {k: v for k, v in rendered["files"].items() if v}
    has_prog = any(it["t"] == "prog" for it in case["main"]["items"])

    def fail(bucket, **detail):
        detail["files"] = src()
        return (bucket, detail), info

    # 1. the source import
    if mainfile not in F["compiled"]:
        raise RuntimeError("harness: the first import did not compile the main module from source: %s" % clip(F))
    if F["outcome"][0] == "raise" and not (has_prog and F["outcome"][1] in RAISING_OK):
        return fail("source-import-raises:" + F["outcome"][1], outcome=F["outcome"], stderr=F["stderr"])
    ok = F["outcome"][0] == "ok"
    exp = G.expectations(case)
    if ok:
        ms = F["snap"][main]
        for key in sorted(exp):
            got = ms["public"].get(key) if key.startswith("zu") else ms["probes"].get(key)
            want = exp[key] if key.startswith("zu") else ["ok", exp[key]]
            if got != want:
                return fail("source-import-differs-from-definition:" + item_tag(case, key), name=key, expected=want, got=got)
        for (psrc, want), got in zip(case.get("ext_probes", []), ms["ext_probes"]):
            if got != ["ok", want]:
                return fail("source-import-differs-from-definition:require:" + origins(case).get(psrc[1:].split(" ")[0], "?"), probe=psrc, expected=want, got=got)
    # 2. the .pyc written by the source import
    for name, pi in sorted(F["pyc"].items()):
        if pi["source"] not in F["compiled"]:
            continue
        if not pi["exists"]:
            return fail("pyc-not-written", module=name, pyc=pi)
        if not (pi["magic_ok"] and pi["flags"] == 0 and pi["pyc_mtime"] == pi["src_mtime"] and pi["pyc_size"] == pi["src_size"]):
            return fail("pyc-header-does-not-match-source", module=name, pyc=pi)
    # 3. the second import used the cache
    re_c = sorted(set(C["compiled"]) | set(C["messages"]))
    if re_c:
        return fail("recompiled-on-second-import", recompiled=[os.path.basename(p) for p in re_c], by_counter=C["compiled"], by_message=C["messages"])
    if mainfile not in C["loaded"]:
        raise RuntimeError("harness: second import neither compiled nor unmarshalled the main module: %s" % clip(C, 3000))
    if case["drop"] != "main":
        missing = [p for p in F["compiled"] if p not in C["loaded"] and any(pi["source"] == p and C["snap"].get(n) for n, pi in C["pyc"].items())]
        if missing:
            raise RuntimeError("harness: modules of the case were imported again without their .pyc being read: %s" % missing)
    for name, pi in sorted(C["pyc"].items()):
        if F["pyc"][name].get("cache_stat") != pi.get("cache_stat"):
            return fail("pyc-rewritten-by-second-import", module=name, before=F["pyc"][name], after=pi)
    # 4. same module
    if F["outcome"] != C["outcome"]:
        return fail("import-outcome-differs", source=F["outcome"], cached=C["outcome"], stderr=C["stderr"])
    if F["log"] != C["log"] or F["log_after_probes"] != C["log_after_probes"]:
        return fail("effects-differ", source=F["log_after_probes"], cached=C["log_after_probes"])
    for name in rendered["modules"]:
        a, b = F["snap"].get(name), C["snap"].get(name)
        if a is None or b is None:
            continue  # e.g. a module that only hy.R at compile time imports: which modules are loaded is not a module value
        for field in ("probes", "ext_probes", "macros", "readers", "public", "extras", "file", "cached"):
            if field not in a and field not in b:
                continue
            d = first_diff(a.get(field), b.get(field))
            if d is None:
                continue
            where, x, y = d
            if field == "probes":
                bucket = "run-time-use-differs:" + item_tag(case, where.strip("/").split("/")[0])
            elif field == "ext_probes":
                k = int(where.strip("/").split("/")[0]) if where.strip("/").split("/")[0].isdigit() else 0
                call = case["ext_probes"][k][0][1:].split(" ")[0] if k < len(case.get("ext_probes", [])) else "?"
                bucket = "run-time-use-differs:require:" + origins(case).get(call, "?")
            elif field == "macros":
                bucket = "macro-table-differs" + (":main" if name == main else ":macro-module")
            elif field == "readers":
                bucket = "reader-macro-table-differs" + (":main" if name == main else ":macro-module")
            elif field == "public":
                key = where.strip("/").split("/")[0]
                bucket = "public-value-differs:" + (item_tag(case, key) if key.startswith("zu") else kind_of_value(x, y))
            else:
                bucket = "module-attribute-differs:" + field
            return fail(bucket, module=name, where=where, source=clip(x), cached=clip(y))
    # non-trivial?
    if ok:
        org = origins(case)
        cm = C["snap"][main]
        for i, it in enumerate(case["main"]["items"]):
            key = "zp_%d" % i
            if it["t"] == "localreq" and cm["probes"].get(key) == ["ok", exp[key]]:
                info["nontrivial"] = True
            if it["t"] == "use" and it["style"] in ("rt", "rtread") and org.get(it["call"], "own-defmacro") != "own-defmacro" and cm["probes"].get(key) == ["ok", exp[key]]:
                info["nontrivial"] = True
            if it["t"] == "use" and it["style"] == "reader-rt" and cm["probes"].get(key) == ["ok", exp[key]]:
                info["nontrivial"] = True
        if case.get("ext_probes") and all(g[0] == "ok" for g in cm["ext_probes"]):
            info["nontrivial"] = True
    return None, info


def kind_of_value(x, y):
    for v in (x, y):
        if isinstance(v, list) and v and isinstance(v[0], str):
            return v[0]
        if isinstance(v, str):
            return v.split(":", 1)[0]
    return "?"


def ext_class(name):
    ext = os.path.splitext(name)[1]
    if ext == "":
        return "no-extension"
    if ext == ".hy":
        return ".hy"
    if ext == ".py":
        return ".py"
    if "py" in ext.lower() or "hy" in ext.lower():
        return "near-miss-extension"
    return "other-extension"


def judge_ext(case, rendered, res):
    name = ext_filename(case)
    ext = os.path.splitext(name)[1]
    py_suffixes = [s for s in res["py_suffixes"] if s != ".hy"]
    as_hy = ext not in py_suffixes
    want = ["ok", "str:" + (("hy:%d" % case["hyval"]) if as_hy else ("py:%d" % case["pyval"]))]
    info = dict(nontrivial=ext != ".hy", as_hy=as_hy, run_path=res["run_path"] is not None, why=res.get("run_path_why"))
    cls = ext_class(name)

    def fail(bucket, **detail):
        detail.update(file=name, text=G.render_ext_case(case), expected=want, handled_as=("Hy" if as_hy else "Python") + " expected")
        return (bucket, detail), info

    def describe(o):
        if o[0] == "ok" and isinstance(o[1], str):
            return "ran-as-hy" if o[1].startswith("str:hy:") else "ran-as-python" if o[1].startswith("str:py:") else "other-value"
        return o[0] + (":" + o[1] if o[0] == "raise" else "")

    first, second = res["loads"]
    if first["outcome"] != want:
        return fail("extension-rule:loader:%s:%s" % (cls, describe(first["outcome"])), got=first["outcome"])
    if second["outcome"] != want:
        return fail("extension-rule:loader-second-load:%s:%s" % (cls, describe(second["outcome"])), got=second["outcome"])
    if res["pyc"]["source"] not in first["compiled"]:
        raise RuntimeError("harness: first load of an ext case did not compile: %s" % clip(res))
    if second["compiled"] or second["messages"]:
        return fail("extension-rule:recompiled-on-second-load:" + cls, second=second)
    if res["run_path"] is not None and res["run_path"] != want:
        return fail("extension-rule:run_path:%s:%s" % (cls, describe(res["run_path"])), got=res["run_path"])
    return None, info


def judge(case, rendered, res):
    return (judge_ext if case["kind"] == "ext" else judge_import)(case, rendered, res)


def check_case(case):
    why = G.invalid(case)
    if why is not None:
        raise ValueError("not a C15 case the generator can produce (%s)" % why)
    rendered, res = run_batch([case])[0]
    return judge(case, rendered, res)[0]


# ----------------------------------------------------------------------------- shrinking


def without_mod(case, mi):
    """the case without macro module mi, if nothing refers to it"""
    c = copy.deepcopy(case)
    entries = []
    for m in c["mods"]:
        entries.extend(m["reqs"])
    for it in c["main"]["items"]:
        if it["t"] == "require":
            entries.extend(it["entries"])
        elif it["t"] == "localreq":
            entries.append(it["entry"])
    if any(e["mod"] == mi for e in entries):
        return None
    for it in c["main"]["items"]:
        if it["t"] == "use" and it["style"].startswith("hyR"):
            return None  # hy.R uses name a module by path, keep it simple
    for e in entries:
        if e["mod"] > mi:
            e["mod"] -= 1
    del c["mods"][mi]
    return c if c["mods"] else None


def candidates(best):
    cands = []
    items = best["main"]["items"]
    for mi in reversed(range(len(best["mods"]))):
        c = without_mod(best, mi)
        if c is not None:
            cands.append(c)
    for i in reversed(range(len(items))):
        c = copy.deepcopy(best)
        del c["main"]["items"][i]
        cands.append(c)
        if items[i]["t"] == "require" and len(items[i]["entries"]) > 1:
            for j in range(len(items[i]["entries"])):
                c = copy.deepcopy(best)
                del c["main"]["items"][i]["entries"][j]
                cands.append(c)
    if best.get("ext_probes"):
        c = copy.deepcopy(best)
        c["ext_probes"] = []
        cands.append(c)
    for mi, m in enumerate(best["mods"]):
        for field in ("reqs", "readers"):
            if m[field]:
                c = copy.deepcopy(best)
                c["mods"][mi][field] = []
                cands.append(c)
        if m.get("export"):
            c = copy.deepcopy(best)
            c["mods"][mi]["export"] = None
            cands.append(c)
        for k in range(len(m["macros"])):
            c = copy.deepcopy(best)
            del c["mods"][mi]["macros"][k]
            cands.append(c)
    if best["drop"] != "all":
        c = copy.deepcopy(best)
        c["drop"] = "all"
        cands.append(c)
    if best.get("init_py"):
        c = copy.deepcopy(best)
        c["init_py"] = False
        cands.append(c)
    return [c for c in cands if G.invalid(c) is None]


def shrink(case, same, budget):
    """Greedy deletion on the structure of an import case. Only valid cases (G.invalid) are tried; candidates are executed several per
    child interpreter; a step is accepted when the candidate fails in the same bucket as the original."""
    import time

    if case["kind"] != "import":
        small = dict(case, stem="prog", dirname="d", hyval=1, pyval=2)
        return small if small != case and same(small) else case
    first = check_case(case)
    if first is None:
        return case
    bucket = first[0]
    limit = 30 if budget <= 150 else 90
    t_end = time.time() + (90 if budget <= 150 else 300)
    used = 0
    best = case
    improved = True
    while improved and used < limit and time.time() < t_end:
        improved = False
        cands = candidates(best)
        for i in range(0, len(cands), 6):
            chunk = cands[i:i + 6][: limit - used]
            if not chunk or time.time() > t_end:
                break
            used += len(chunk)
            for c, (rendered, res) in zip(chunk, run_batch(chunk)):
                try:
                    f = judge(c, rendered, res)[0]
                except RuntimeError:
                    f = None
                if f is not None and f[0] == bucket:
                    best = c
                    improved = True
                    break
            if improved:
                break
    return best


# ----------------------------------------------------------------------------- exploration


def classes_of(case):
    if case["kind"] == "ext":
        return ["ext:" + ext_class(ext_filename(case))]
    cls = ["drop:" + case["drop"]]
    for m in case["mods"]:
        if m["reqs"]:
            cls.append("mod:re-exports:" + entry_tag(m["reqs"][0]))
        if m.get("export"):
            cls.append("mod:export-list:" + m["export"]["style"])
        if m["path"][-1] == "__init__":
            cls.append("mod:macros-in-package-init")
        if m["readers"]:
            cls.append("mod:defreader")
        if len(m["path"]) == 1:
            cls.append("mod:top-level")
        for _, k in m["macros"]:
            cls.append("macro-kind:%d" % k)
    if case.get("init_py"):
        cls.append("init.py")
    if case.get("ext_probes"):
        cls.append("use:outside-eval")
    for it in case["main"]["items"]:
        if it["t"] == "require":
            if len(it["entries"]) > 1:
                cls.append("req:several-entries")
            for e in it["entries"]:
                cls.append("req:" + entry_tag(e))
                if e.get("readers") is not None:
                    cls.append("req:readers:" + ("*" if e["readers"] == "*" else "[names]") + ("+first" if e.get("rfirst") and e["shape"] != "none" else ""))
        elif it["t"] == "localreq":
            cls.append("req:local:" + entry_tag(it["entry"]))
        elif it["t"] == "use":
            cls.append("use:" + it["style"])
        elif it["t"] == "prog":
            cls.append("body:engine-a-program")
        elif it["t"] == "own":
            cls.append("own-defmacro")
    return sorted(set(cls))


def sample_of(case, rendered):
    if case["kind"] == "ext":
        return "file %r: %s" % (ext_filename(case), G.render_ext_case(case))
    main = G.relfile(case["main"]["path"])
    parts = ["--- %s\n%s" % (main, rendered["files"][main])]
    for rel in sorted(rendered["files"]):
        if rel != main and rendered["files"][rel]:
            parts.append("--- %s\n%s" % (rel, rendered["files"][rel]))
    return "\n".join(parts)[:3000]


def shard(ctx):
    from hypothesis import strategies as st

    from vf import progs as P
    from vf import proggen as PG

    cases = []
    if any(e.get("status") == "known" and e.get("match") == "local_submodule_require_runtime" for e in core.load_known(PROP)):
        G.EXCLUDE.add("local-sub")

    @st.composite
    def import_case(draw):
        prog = None
        if draw(st.integers(0, 3)) == 0:
            p = draw(PG.program(budget=25, depth=3))
            mode = draw(st.sampled_from(["module", "function", "function"]))
            prog = P.wrap_source(p, mode)
            if mode == "function":  # keep the module importable when the program raises, so that its probes still run
                prog = prog.replace("(setv RESULT (MAIN))", "(setv RESULT (try (MAIN) (except [e BaseException] [\"raised\" (. (type e) __name__)])))")
        return G.gen_import_case(draw, with_prog=prog)

    @st.composite
    def ext_case(draw):
        return G.gen_ext_case(draw)

    def add(case):
        why = G.invalid(case)
        if why is not None:
            raise core.HarnessError("generator produced an invalid case (%s): %s" % (why, json.dumps(case)[:2000]))
        cases.append(case)

    ctx.hyp(ext_case(), add, ctx.per_shard(320, 6000), "ext")  # cheap, first
    ctx.hyp(import_case(), add, ctx.per_shard(320, 8000), "import")
    ctx.excluded_known += G.EXCLUDED[0]
    blocked = 0
    for i in range(0, len(cases), BATCH):
        if ctx.out_of_time():
            break
        chunk = cases[i:i + BATCH]
        for case, (rendered, res) in zip(chunk, run_batch(chunk)):
            failure, info = judge(case, rendered, res)
            key = json.dumps(rendered["files"], sort_keys=True) + case.get("drop", "")
            cls = classes_of(case)
            if case["kind"] == "ext":
                cls.append("ext:expected-" + ("hy" if info["as_hy"] else "python"))
                if not info["run_path"]:
                    blocked += 1
                    cls.append("ext:run_path-blocked")
                    if blocked == 1 and ctx.k == 0:
                        ctx.notes.append("run_path leg skipped: " + str(info["why"]))
                else:
                    cls.append("ext:run_path-leg-executed")
            ctx.case(key=key, nontrivial=info["nontrivial"] and failure is None, cls=cls, sample=sample_of(case, rendered))
            if failure is not None:
                ctx.fail(case, failure[0], failure[1])


def local_submodule_require_runtime(case, bucket, detail):
    """Root cause: compile_require's run-time call for a *local* require asks the named module for the macro names that the compile-time
    require found, but with (require PKG [SUBMODULE]) those names live in PKG.SUBMODULE, so the call raises HyRequireError when the
    function runs (from source and from bytecode alike)."""
    if case.get("kind") != "import" or not bucket.startswith("source-import-differs-from-definition:local-require:sub"):
        return False
    got = (detail or {}).get("got") or []
    if len(got) < 3 or got[0] != "raise" or got[1] != "HyRequireError" or "Cannot import name" not in str(got[2]):
        return False
    name = (detail or {}).get("name", "")
    try:
        it = case["main"]["items"][int(name.replace("zp_", ""))]
    except (ValueError, IndexError):
        return False
    return it["t"] == "localreq" and it["entry"]["shape"] == "sub"


MATCHERS = {"local_submodule_require_runtime": local_submodule_require_runtime}
