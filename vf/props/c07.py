"""C07 nonlocal and global reach the binding scoping prescribes."""
from vf import scopes as S

PROP = "C07"
PROFILE = "decl"
RULE = (
    "Engine C programs (vf/scopes.py) over the names x y z (pre-assigned at module level) and w (never a module variable): nestings "
    "of functions (defn, fn bound by setv or let), classes with methods, let forms and comprehensions up to depth 4, each name "
    "defined at a random subset of levels (module, function locals and parameters, let bindings); (nonlocal ...) / (global ...) "
    "with 1..4 names at the top of random functions, mixing names that resolve to let bindings, enclosing-function variables and "
    "module variables in one declaration, chains of nonlocal through several functions; (global n) directly in the body of a let "
    "that binds n; assignments and reads after the declarations, then calls. Negative cases: a declaration after the name was used "
    "in the same scope, a parameter that is also declared, a nonlocal without any binding - must be rejected at compile time "
    "(SyntaxError family). Oracle: the reference resolver/interpreter of vf/scopes.py: nonlocal -> nearest enclosing let binding / "
    "function variable / module variable, global -> module; the (id, value) log of every read and the final module values of x y z w "
    "must be identical. Non-trivial = the program contains a nonlocal or global declaration inside a nested function or let; distinct by Hy text"
)
ASSUMPTIONS = [
    "vf/scopes.py's resolver and interpreter are the reference (transcribed from docs/api.rst and Python's scoping rules)",
    "programs whose meaning the docs leave open are not generated: assignments that would make a name function-local after it was read there, mid-body nonlocal, nonlocal for a name an enclosing function declares global, functions defined inside comprehensions",
]
NT = {"nonlocal", "global", "mid-body-global"}


def check_case(case):
    try:
        r = S.compare(case)
    except (KeyError, IndexError, TypeError, ValueError):
        return None  # a shrunk candidate that is no longer a program
    if r is None or r[0].startswith("skip"):
        return None
    return r


def nontrivial(feats):
    return bool(feats & NT)


def shard(ctx):
    strat = S.program_strategy(PROFILE)

    def one(case):
        r = S.compare(case)
        feats = S.features(case)
        src = S.render(case)
        if r is not None and r[0].startswith("skip"):
            ctx.count(r[0])
            return
        ref = S.reference(case)
        cls = sorted(feats) + ["scope:" + case["scope"], "expected:" + ("rejected-at-compile-time" if ref[0] == "reject" else "runs")]
        ctx.case(key=src, nontrivial=nontrivial(feats), cls=cls, sample=src.replace("\n", " ")[:400])
        if r is not None:
            ctx.fail(case, r[0], r[1])

    ctx.hyp(strat, one, ctx.per_shard(6000, 250000), "programs")


MATCHERS = {}
