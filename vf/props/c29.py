"""C29 hy.as-model promotes values to models that evaluate back to them; self-reference is an error that leaves no trace."""
import json

from vf import c29_values as V

PROP = "C29"
RULE = (
    "histories of 1..3 promotions in one process. Each step is a tagged JSON tree (vf/c29_values.py) rebuilt into the input: "
    "None, bools, ints (small, 64-bit edge, big), floats (nan, inf, -0.0, subnormal), complex, str (all code points incl. lone "
    "surrogates), bytes, keywords, lists, tuples, dicts, sets, nested; every leaf and container independently given either as the "
    "plain Python value or as an existing model (Integer, String with brackets, Symbol True/False/None, List/Tuple/Dict/Set models "
    "holding unpromoted children, Expression (do/len/+ with a known value, or an arbitrary call), FString/FComponent with brackets, "
    "conversion, format spec, is_tstring); 'ref' nodes insert an already built container again: an enclosing one (the structure "
    "contains itself: through list, dict value, tuple, List/Tuple/Dict/Set/Expression/FString models; also enumerated exhaustively "
    "for every (enclosing kind x holder kind x wrapper) on shard 0) or a completed one (shared but acyclic, must succeed). "
    "Oracle, acyclic input x: r = as_model(x) returns; every node of r is a hy.models.Object; every part of x that already was a "
    "model tree is in r unchanged (type, value, brackets/conversion/expression/is_tstring); as_model(r) is the same tree as r "
    "(same comparison); hy.eval(r) is the Python value the tree denotes, built independently from the JSON (same container and "
    "leaf types, NaN == NaN, sets and dict keys by Python's ==), when the tree has a predictable value. Self-referential input: "
    "HyWrapperError, nothing else. Step flags: 'again' promotes the same object a second time; 'heal' (after the error) replaces "
    "every self-reference in place by 0 and promotes the very same objects again: must now succeed with the full oracle; the "
    "following steps of the history run in the same process with whatever the earlier ones left behind. At the end of a history "
    "that showed no failure, hy.models._seen (the anchored guard state) must be empty. Every choice is read from one Hypothesis-"
    "drawn byte string (768 bytes) by a grammar in this module. Non-trivial = nesting depth >= 2 or a self-reference in the "
    "history; distinct by the JSON of the history"
)
ASSUMPTIONS = [
    "the value a tree denotes is computed by vf/c29_values.py from the JSON alone; symbols are evaluated in the fixed namespace a=7 b='bee' c-d=(1, 2)",
    "evaluated leaves must have the original's type as well as be equal (True is not 1, 1 is not 1.0), except inside sets and dict keys where only Python's == is used; the sign of zero is counted, not judged",
    "NaN is kept out of set elements and dict keys when the evaluated value is compared (Python's own equality cannot succeed there)",
    "existing models keep their attributes (DESIGN 2/C29: type- and attribute-exact); positions are not compared",
    "template strings (is_tstring) and arbitrary call expressions are promoted and compared but not evaluated (Python 3.12 / no defined value)",
]


# -- one promotion ---------------------------------------------------------------------


def _guards_left():
    import hy.models as M

    seen = getattr(M, "_seen", None)
    if seen:
        n = len(seen)
        seen.clear()
        return n
    return 0


def _short(x, n=300):
    try:
        s = repr(x)
    except Exception as e:  # noqa
        s = "<repr failed: %s>" % type(e).__name__
    return s if len(s) <= n else s[:n] + "..."


_EVAL_MODULE = []


def _eval_module():
    """hy.eval's documented `module` argument: where macros are looked up. An empty module of our own, so that hy does not
    walk the Python stack (one stat() per frame) to find the caller's module on every call."""
    if not _EVAL_MODULE:
        import types

        _EVAL_MODULE.append(types.ModuleType("c29_eval_scratch"))
    return _EVAL_MODULE[0]


def promote(obj, tree, cyclic, where, notes):
    """-> None | (bucket, detail)"""
    import hy
    import hy.models as M
    from hy.errors import HyWrapperError

    step, phase = where

    def detail(**kw):  # the input is only printed when a failure is reported
        return dict(step=step, phase=phase, tree=V.show(tree)[:400], input=_short(obj), **kw)

    out = exc = None
    try:
        out = M.as_model(obj)
    except Exception as e:  # the outcome under test, judged below
        exc = e
    if cyclic:
        if exc is None:
            return ("self-reference-accepted", detail(expected="HyWrapperError", actual=_short(out)))
        if not isinstance(exc, HyWrapperError):
            return ("self-reference-raised:" + type(exc).__name__, detail(expected="HyWrapperError", actual=_short(exc)))
        return None
    if exc is not None:
        kind = {"first": "promotion-raised", "again": "second-promotion-raised", "healed": "promotion-after-self-reference-raised"}[phase]
        return ("%s:%s" % (kind, type(exc).__name__), detail(expected="a model tree", actual=_short(exc)))
    bad = V.non_model(out)
    if bad:
        origin = V.passthrough_origin(obj, out)
        if origin:
            return ("children-not-promoted:" + origin, detail(at=bad[0], found=bad[1], result=_short(out)))
        return ("not-a-model:%s-in-%s" % (bad[1], bad[2]), detail(at=bad[0], result=_short(out)))
    d = V.models_kept(obj, out)
    if d:
        return ("model-changed:" + d[0], detail(diff=d[1]))
    try:
        out2 = M.as_model(out)
    except Exception as e:  # noqa
        return ("repromotion-raised:" + type(e).__name__, detail(result=_short(out), actual=_short(e)))
    d = V.non_model(out2) and ("type", "as_model(result) holds a non-model") or V.model_diff(out, out2)
    if d:
        return ("not-idempotent:" + d[0], detail(diff=d[1], first=_short(out), second=_short(out2)))
    if V.evaluable(tree):
        exp = V.plain_value(tree)
        try:
            val = hy.eval(out, dict(V.ENV_NS), module=_eval_module())
        except Exception as e:  # noqa
            return ("eval-raised:" + type(e).__name__, detail(result=_short(out), expected=_short(exp), actual=_short(e)))
        d = V.value_diff(exp, val, "", notes)
        if d:
            return ("eval-differs:" + d[0], detail(diff=d[1], result=_short(out), expected=_short(exp), actual=_short(val)))
        if notes is not None:
            notes.append("evaluated")
    return None


def run_history(case, info=None):
    _guards_left()  # whatever an earlier case left behind was reported there; this history is judged on its own
    notes = [] if info is None else info.setdefault("notes", [])
    r = _run_steps(case, info, notes)
    left = _guards_left()
    if r is None and left:
        # no call misbehaved, but the anchored guard state still lists containers "being wrapped": the next container that
        # happens to be allocated at one of these addresses would be refused as self-referential
        return ("guard-state-left-behind", dict(entries=left, steps=[V.show(s["tree"])[:200] for s in case["steps"]]))
    return r


def _run_steps(case, info, notes):
    for si, step in enumerate(case["steps"]):
        tree = step["tree"]
        b = V.build(tree)
        cyclic = V.is_cyclic(tree)
        if info is not None:
            info.setdefault("inputs", []).append(V.show(tree)[:200])
        r = promote(b.root, tree, cyclic, (si, "first"), notes)
        if r:
            return r
        if step.get("again"):
            r = promote(b.root, tree, cyclic, (si, "again"), notes)
            if r:
                return r
        if cyclic and step.get("heal"):
            b.heal()
            r = promote(b.root, V.healed(tree), False, (si, "healed"), notes)
            if r:
                return r
    return None


def check_case(case):
    try:
        steps = case["steps"]
        if not isinstance(steps, list) or not steps:
            return None
        for s in steps:
            V.validate(s["tree"])
    except (V.Invalid, KeyError, TypeError, AttributeError):  # not a well-formed case: only shrinking produces these
        return None
    try:
        return run_history(case)
    except V.Invalid:
        return None


# -- generation ---------------------------------------------------------------------------

KWS = ["a", "foo", "foo-bar", "", "x?", "key_1"]
INT_SPECS = ["", ">5", "03d", "x", "+"]
STR_SPECS = ["", ">8", "^6", ".2"]


def resolve(tree, mode, pick=lambda n: 0):
    """Number the containers and turn reference placeholders into refs (or into the integer 0 where no target exists)."""
    counter = [0]

    def go(node, anc, done, slot):
        t = node["t"]
        if t == "refph":
            ok = slot == "mutable" and mode != "plain"
            up = [a for a in anc]
            side = list(done)
            if ok and mode == "cyclic" and node["up"] and up:
                return {"t": "ref", "to": up[node["k"] % len(up)]}
            if ok and side:
                return {"t": "ref", "to": side[node["k"] % len(side)]}
            if ok and mode == "cyclic" and up:
                return {"t": "ref", "to": up[node["k"] % len(up)]}
            return {"t": "int", "v": 0, "m": 0}
        if t not in V.CONTAINERS:
            return node
        new = dict(node)
        if t != "fcomp":
            new["id"] = counter[0]
            counter[0] += 1
            anc2 = anc + [new["id"]]
        else:
            anc2 = anc
        raw = t in V.RAWABLE and not node.get("m")
        if t == "dict":
            pairs = []
            keys = set()
            for k, v in node["c"]:
                v2 = go(v, anc2, done, "mutable" if raw else "fixed") if v["t"] == "refph" else None
                if v2 is not None and v2["t"] == "ref":
                    k2 = {"t": "kw", "v": "ref-%d" % len(pairs)}  # a key nothing else can collide with
                else:
                    n0 = len(done)
                    k2 = go(k, anc2, done, "fixed")
                    if raw:  # a plain dict cannot hold two equal keys: the second entry gets a key of its own
                        kobj = V.Built(k2).root
                        if kobj in keys:
                            k2 = {"t": "kw", "v": "dup-%d" % len(pairs)}
                            del done[n0:]  # the discarded key's containers are no targets
                        keys.add(kobj)
                    v2 = v2 or go(v, anc2, done, "mutable" if raw else "fixed")
                pairs.append([k2, v2])
            new["c"] = pairs
        else:
            new["c"] = [go(x, anc2, done, "mutable" if (raw and t == "list") else "fixed") for x in node["c"]]
        if t != "fcomp":
            done.append(new["id"])
        return new

    out = go(tree, [], [], "top")
    if mode == "cyclic" and not V.is_cyclic(out):
        # close the structure somewhere: a plain list / dict of the tree gets one of its enclosing containers (or itself)
        spots = [(n, [a["id"] for a in anc if "id" in a] + [n["id"]]) for n, anc in V.walk(out)
                 if n["t"] in ("list", "dict") and not n.get("m")]
        if spots:
            n, targets = spots[pick(len(spots))]
            ref = {"t": "ref", "to": targets[pick(len(targets))]}
            if n["t"] == "list":
                n["c"].insert(pick(len(n["c"]) + 1), ref)
            else:
                n["c"].append([{"t": "kw", "v": "ref-%d" % len(n["c"])}, ref])
        else:
            out = {"t": "list", "m": 0, "id": counter[0], "c": [out, {"t": "ref", "to": counter[0]}]}
    return out


class Tape:
    """A Hypothesis-drawn byte string read as a sequence of choices (nested strategies cost ~50 ms per tree here,
    one st.binary draw ~1 ms). Every choice below is read from the tape; an exhausted tape yields the first alternative."""

    def __init__(self, data):
        self.d, self.i = data, 0

    @property
    def empty(self):
        return self.i >= len(self.d)

    def n(self, k):
        b = self.d[self.i : self.i + 2]
        self.i += 2
        return int.from_bytes(b, "big") % k if b else 0

    def pick(self, seq):
        return seq[self.n(len(seq))]

    def chance(self, num, den):
        return self.n(den) < num and not self.empty

    def raw(self, k):
        b = self.d[self.i : self.i + k]
        self.i += k
        return bytes(b).ljust(k, b"\0")


FLOATS = ["0.0", "-0.0", "inf", "-inf", "1.5", "1e308", "5e-324", "0.1", "-2.5", "1e16", "123456789.125"]
TEXTS = ["", "a", "]x]", "]]", "\\", '"', "\u00e9\n", "\ud800", "{a}", "a b", "\x00", "]", "x", "\U0001f991"]
BRACKETS = [None, None, "", "x", "==", "f"]
SYMS = list(V.ENV) * 4 + ["foo", "my-macro"]


def gen_int(t):
    k = t.n(10)
    if k < 5:
        return t.n(11) - 5
    if k < 7:
        return t.pick([2 ** 63, -(2 ** 63) - 1, 10 ** 30, 255, 2 ** 31, -(2 ** 64), 2 ** 53 + 1])
    v = int.from_bytes(t.raw(1 + t.n(9)), "big")
    return -v if t.n(2) else v


def gen_float_text(t, nan_ok):
    import struct

    k = t.n(10)
    if k == 0 and nan_ok:
        return "nan"
    if k < 6:
        return t.pick(FLOATS)
    v = struct.unpack(">d", t.raw(8))[0]
    if v != v:
        return "nan" if nan_ok else "1.0"
    return repr(v)


def gen_text(t):
    k = t.n(10)
    if k < 5:
        return t.pick(TEXTS)
    out = []
    for _ in range(t.n(6)):
        c = t.n(6)
        if c < 3:
            out.append(chr(32 + t.n(95)))
        elif c == 3:
            out.append(t.pick(["]", "[", "\n", "{", "}", "\\", '"', "\t", "\r"]))
        else:
            out.append(chr(int.from_bytes(t.raw(3), "big") % 0x110000))
    return "".join(out)


def bracket_ok(v, br):
    """what hy.models.String accepts as a bracket string: the content must not run into the closer, the delimiter must not
    make it an f-string, and no carriage return (none of these can be written as a bracket string)"""
    return ("]%s]" % br) not in (v + "]" + br) and not (br == "f" or br.startswith("f-")) and "\r" not in v


def gen_str_node(t, m=None, br_ok=True):
    v = gen_text(t)
    m = t.pick([0, 0, 1]) if m is None else m
    br = t.pick(BRACKETS) if (m and br_ok) else None
    if br is not None and not bracket_ok(v, br):
        br = None
    return {"t": "str", "v": v, "m": m, "br": br}


def gen_leaf(t, nan_ok=True):
    k = t.n(16)
    m = t.pick([0, 0, 1])
    if k == 0:
        return {"t": "none", "m": m}
    if k == 1:
        return {"t": "bool", "v": bool(t.n(2)), "m": m}
    if k < 6:
        return {"t": "int", "v": gen_int(t), "m": m}
    if k < 8:
        return {"t": "float", "v": gen_float_text(t, nan_ok), "m": m}
    if k == 8:
        return {"t": "complex", "re": gen_float_text(t, nan_ok), "im": gen_float_text(t, nan_ok), "m": m}
    if k < 12:
        return gen_str_node(t, m)
    if k == 12:
        return {"t": "bytes", "v": t.raw(t.n(5)).hex(), "m": m}
    if k < 15:
        return {"t": "kw", "v": t.pick(KWS)}
    return {"t": "sym", "v": t.pick(SYMS)}


def gen_hashable(t, depth=0):
    if depth < 2 and t.chance(1, 4):
        return {"t": "tuple", "m": t.pick([0, 0, 1]), "c": [gen_hashable(t, depth + 1) for _ in range(t.n(4))]}
    return gen_leaf(t, nan_ok=False)


def gen_int_leaf(t):
    return {"t": "int", "v": gen_int(t), "m": t.pick([0, 0, 1])}


def gen_fcomp(t):
    def value():
        k = t.n(5)
        if k < 2:
            return gen_int_leaf(t)
        if k == 2:
            return gen_str_node(t, br_ok=False)
        if k == 3:
            return {"t": "sym", "v": t.pick(list(V.ENV))}
        elems = []
        for _ in range(t.n(4)):
            e = t.n(4)
            elems.append(gen_int_leaf(t) if e < 2 else gen_str_node(t, br_ok=False) if e == 2 else {"t": "refph", "k": t.n(8), "up": True})
        return {"t": "list", "m": t.pick([0, 0, 0, 1]), "c": elems}

    k = t.n(3)
    if k == 0:
        val, conv, spec = gen_int_leaf(t), None, t.pick([None] + INT_SPECS)
    elif k == 1:
        val, conv, spec = value(), t.pick(["r", "s", "a"]), t.pick([None] + STR_SPECS)
    else:
        val, conv, spec = value(), None, None
    c = [val] + ([{"t": "str", "v": spec, "m": t.pick([0, 1]), "br": None}] if spec is not None else [])
    return {"t": "fcomp", "conv": conv, "ts": False, "c": c}


def gen_fstr(t):
    parts = [gen_fcomp(t) if t.n(2) else gen_str_node(t, br_ok=False) for _ in range(t.n(4))]
    node = {"t": "fstr", "br": t.pick([None, None, "", "x", "f-x"]), "ts": t.n(10) == 9, "c": parts}
    if node["br"] is not None:  # nothing inside may be able to close the bracket string

        def scrub(n):
            if n["t"] == "str":
                return dict(n, v=n["v"].replace("]", ")"))
            if n["t"] in V.CONTAINERS:
                return dict(n, c=[scrub(x) for x in n["c"]])
            return n

        node = scrub(node)
    if node["ts"]:
        node["c"] = [dict(x, ts=True) if x["t"] == "fcomp" else x for x in node["c"]]
    return node


def gen_tree(t, budget, depth, maxdepth):
    """budget: [remaining containers]"""
    if depth >= maxdepth or budget[0] <= 0 or t.empty or (depth > 0 and t.chance(2, 5)):
        return gen_leaf(t)
    budget[0] -= 1

    def child():
        return gen_tree(t, budget, depth + 1, maxdepth)

    def elem():
        if t.chance(1, 4):
            return {"t": "refph", "k": t.n(8), "up": t.n(3) < 2}
        return child()

    def rawable(k):
        m = t.pick([0, 0, 1])
        if k == "list":
            return {"t": "list", "m": m, "c": [elem() for _ in range(t.n(5))]}
        if k == "tuple":
            return {"t": "tuple", "m": m, "c": [child() for _ in range(t.n(4))]}
        if k == "dict":
            return {"t": "dict", "m": m, "c": [[gen_hashable(t), elem()] for _ in range(t.n(4))]}
        return {"t": "set", "m": m, "c": [gen_hashable(t) for _ in range(t.n(4))]}

    k = t.pick(["list", "list", "list", "tuple", "tuple", "dict", "dict", "set", "do", "len", "+", "call", "fstr"])
    if k in V.RAWABLE:
        return rawable(k)
    if k == "do":
        return {"t": "expr", "op": "do", "c": [child()]}
    if k == "len":
        return {"t": "expr", "op": "len", "c": [rawable(t.pick(V.RAWABLE))]}
    if k == "+":
        return {"t": "expr", "op": "+", "c": [gen_int_leaf(t) for _ in range(t.n(4))]}
    if k == "call":
        return {"t": "expr", "op": "call", "head": t.pick(V.CALL_HEADS), "c": [child() for _ in range(t.n(4))]}
    return gen_fstr(t)


def gen_case(data, quick):
    t = Tape(data)
    steps = []
    for _ in range(1 + t.n(3)):
        mode = t.pick(["plain", "plain", "shared", "cyclic", "cyclic"])
        again = t.n(3) == 2
        heal = t.n(4) < 3
        tree = gen_tree(t, [6 if quick else 10], 0, 3 + t.n(2 if quick else 3))
        steps.append({"tree": resolve(tree, mode, t.n), "again": again, "heal": heal})
    return {"steps": steps}


TAPE_BYTES = 768  # measured: 99 % of thorough-tier cases read < 440 bytes, the longest of 3000 read 626


def strategies(quick):
    from hypothesis import strategies as st

    return st.binary(min_size=TAPE_BYTES, max_size=TAPE_BYTES).map(lambda b: gen_case(b, quick))


def enumerated():
    """Every way this file can close a structure onto itself: enclosing kind x holder kind x wrapper around it."""
    leaf = {"t": "int", "v": 1, "m": 0}
    out = []

    def holder(kind, ref):
        if kind == "list":
            return {"t": "list", "m": 0, "c": [dict(leaf), ref]}
        return {"t": "dict", "m": 0, "c": [[{"t": "str", "v": "k", "m": 0, "br": None}, ref]]}

    def enclosing(kind, inner):
        if kind in ("list", "tuple", "set"):
            return {"t": kind, "m": 0, "c": [inner]}
        if kind == "dict":
            return {"t": "dict", "m": 0, "c": [[{"t": "kw", "v": "a"}, inner]]}
        if kind in ("model-list", "model-tuple", "model-set"):
            return {"t": kind[6:], "m": 1, "c": [inner]}
        if kind == "model-dict":
            return {"t": "dict", "m": 1, "c": [[{"t": "kw", "v": "a"}, inner]]}
        if kind == "expr":
            return {"t": "expr", "op": "do", "c": [inner]}
        if kind == "fstr":
            return {"t": "fstr", "br": None, "ts": False, "c": [{"t": "str", "v": "s", "m": 1, "br": None}, {"t": "fcomp", "conv": None, "ts": False, "c": [inner]}]}
        raise ValueError(kind)

    def number(tree, target_kind):
        c = [0]
        target = []

        def go(n):
            if n["t"] in V.CONTAINERS and n["t"] != "fcomp":
                n["id"] = c[0]
                c[0] += 1
                if n.get("mark"):
                    del n["mark"]
                    target.append(n["id"])
            for k in V.kids(n):
                go(k)

        go(tree)

        def fix(n):
            if n["t"] == "ref":
                n["to"] = target[0]
            for k in V.kids(n):
                fix(k)

        fix(tree)
        return tree

    encl = ["list", "dict", "tuple", "model-list", "model-tuple", "model-set", "model-dict", "expr", "fstr"]
    wraps = [None, "list", "tuple", "dict", "model-list", "expr"]
    for e in encl:
        for h in ["list", "dict"]:
            for w in wraps:
                for direct in ([True, False] if e in ("list", "dict") and e == h else [False]):
                    ref = {"t": "ref", "to": None}
                    if direct:
                        t = holder(h, ref)
                    else:
                        t = enclosing(e, holder(h, ref))
                    t["mark"] = True
                    if w:
                        t = enclosing(w, t)
                    t = number(json.loads(json.dumps(t)), e)
                    for again in (False, True):
                        out.append({"steps": [{"tree": t, "again": again, "heal": True}, {"tree": t, "again": False, "heal": False}]})
    return out


def classify(case):
    cls = set()
    cyc_seen = False
    maxd = 0
    for s in case["steps"]:
        t = s["tree"]
        cyc = V.is_cyclic(t)
        cls.add("step:self-referential" if cyc else "step:acyclic")
        if cyc:
            for path in V.cycle_path_kinds(t):
                cls.add("cycle:%s<-%s" % (path[0], path[-1]))
                if len(path) > 2:
                    cls.add("cycle:length>=3")
                for k in path[1:-1]:
                    cls.add("cycle-through:" + k)
            if s.get("heal"):
                cls.add("healed-and-promoted-again")
        elif cyc_seen:
            cls.add("history:acyclic-after-self-referential")
        if V.side_refs(t):
            cls.add("shared-container")
        if s.get("again"):
            cls.add("same-object-twice")
        cyc_seen = cyc_seen or cyc
        d = V.depth(t)
        maxd = max(maxd, d)
        for n, anc in V.walk(t):
            k = n["t"]
            if k in V.RAWABLE:
                cls.add("has:" + V.kind_name(n))
                if n.get("m") and any(x.get("m") == 0 and x["t"] != "ref" for x in V.kids(n)):
                    cls.add("model-holding-plain-values")
                if not n.get("m") and any(x.get("m") == 1 or x["t"] in ("kw", "sym", "expr", "fstr") for x in V.kids(n)):
                    cls.add("plain-container-holding-models")
            elif k == "expr":
                cls.add("has:expr-" + n["op"])
            elif k == "fstr":
                cls.add("has:fstring" + ("-brackets" if n.get("br") is not None else "") + ("-tstring" if n.get("ts") else ""))
            elif k == "fcomp":
                cls.add("has:fcomponent" + ("-conversion" if n.get("conv") else "") + ("-spec" if len(n["c"]) == 2 else ""))
            elif k == "str":
                if n.get("br") is not None:
                    cls.add("has:bracket-string")
                if any(0xD800 <= ord(ch) <= 0xDFFF for ch in n["v"]):
                    cls.add("has:lone-surrogate")
                cls.add("has:str-model" if n.get("m") else "has:str")
            elif k in ("float", "complex"):
                cls.add("has:nan" if V.is_nan_leaf(n) else "has:" + k)
            elif k == "int":
                cls.add("has:bigint" if abs(n["v"]) >= 2 ** 63 else "has:int-model" if n.get("m") else "has:int")
            elif k != "ref":
                cls.add("has:" + k)
    cls.add("depth:%d" % min(maxd, 5))
    cls.add("steps:%d" % len(case["steps"]))
    return sorted(cls), (maxd >= 2 or cyc_seen)


def shard(ctx):
    from vf.core import HarnessError

    def one(case):
        for s in case["steps"]:
            try:
                V.validate(s["tree"])
            except V.Invalid as e:
                raise HarnessError("generator produced an invalid tree (%s): %s" % (e, json.dumps(s["tree"])[:500]))
        cls, nt = classify(case)
        info = {}
        r = run_history(case, info)
        notes = info.get("notes", [])
        if "evaluated" in notes:
            cls.append("evaluated")
        if "zero-sign" in notes:
            cls.append("note:sign-of-zero-differs")
        ctx.case(key=json.dumps(case, sort_keys=True), nontrivial=nt, cls=cls, sample=" ;; ".join(info.get("inputs", []))[:400])
        if r is not None:
            ctx.fail(case, r[0], r[1])

    if ctx.k == 0:
        for case in enumerated():
            one(case)
    ctx.hyp(strategies(ctx.quick), one, ctx.per_shard(12000, 600000), "histories")


MATCHERS = {}
