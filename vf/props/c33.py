"""C33 hy.unmangle inverts hy.mangle up to mangling."""
import re
import sys
import unicodedata

from vf.props import c32

PROP = "C33"
RULE = (
    "every Unicode code point except surrogates and '.' in the contexts of C32 (enumerated), plus random "
    "names mixing hyphens, underscores, escapes and X/H/U fragments; precondition of the property applied "
    "by construction of the oracle (names whose part after the leading NFKC-underscores starts with 'hyx_' "
    "are skipped and counted); non-trivial = mangle(s) != s"
)
ASSUMPTIONS = ["leading underscores are the leading characters whose NFKC form is '_'"]


def body_of(s):
    us = c32.nfkc_underscores()
    return s[c32.lead_us(s, us):]


def in_domain(s):
    """The property's precondition, literally."""
    return not body_of(s).startswith("hyx_")


_ESC = re.compile(r"X(U)?([_a-z0-9H]+?)X")


def known_shape(s):
    """Root-cause tags for the two recorded findings, decided from the input alone."""
    body = body_of(s)
    if not body:
        return None
    conv = body[0] + body[1:].replace("-", "_")
    lead = "_" * (len(s) - len(body))
    if (lead + conv).isidentifier():
        # not escaped; lands in the reserved prefix only through hyphen conversion / NFKC
        if unicodedata.normalize("NFKC", conv).startswith("hyx_"):
            return "unescaped-name-lands-in-hyx-prefix"
        return None
    # escaped: build the documented pre-normalisation text as tokens
    toks = []
    for ch in conv:
        if ch != "X" and ("S" + ch).isidentifier():
            toks.append(("lit", ch))
        else:
            toks.append(("esc", unicodedata.name(ch, "").lower().replace("-", "H").replace(" ", "_") or "U%x" % ord(ch)))
    pre = "".join(t if k == "lit" else "X" + t + "X" for k, t in toks)
    post = unicodedata.normalize("NFKC", pre)
    # what a decoder should find: the same escapes, literal runs individually normalised
    want, run = [], ""
    for k, t in toks:
        if k == "lit":
            run += t
        else:
            if run:
                want.append(("lit", unicodedata.normalize("NFKC", run)))
                run = ""
            want.append(("esc", t))
    if run:
        want.append(("lit", unicodedata.normalize("NFKC", run)))
    got, pos = [], 0
    for mo in _ESC.finditer(post):
        if mo.start() > pos:
            got.append(("lit", post[pos:mo.start()]))
        got.append(("esc", (mo.group(1) or "") + mo.group(2)))
        pos = mo.end()
    if pos < len(post):
        got.append(("lit", post[pos:]))
    if got != want or any(k == "lit" and "X" in t for k, t in want):
        # escapes fused/imitated, or normalisation produced a raw delimiter 'X' that escaping never saw
        return "nfkc-after-escaping-disturbs-escapes"
    return None


def check_name(s):
    r = _check_name(s)
    if r is None:
        return None
    tag = known_shape(s)
    return (r[0] + ("|" + tag if tag else ""), r[1])


def _check_name(s):
    from hy.reader.mangling import mangle, unmangle

    if not s or "." in s or not in_domain(s):
        return None
    try:
        m = mangle(s)
    except Exception:
        return None  # C32's business
    try:
        u = unmangle(m)
    except Exception as e:  # noqa
        return ("unmangle-raised:" + type(e).__name__, dict(s=s, mangled=m, error=repr(e)))
    try:
        m2 = mangle(u) if u else None
    except Exception as e:  # noqa
        return ("remangle-raised:" + type(e).__name__, dict(s=s, mangled=m, unmangled=u))
    if m2 != m:
        return ("remangle-differs", dict(s=s, mangled=m, unmangled=u, remangled=m2))
    return None


def check_case(case):
    return check_name(case["s"])


def shard(ctx):
    from hy.reader.mangling import mangle

    contexts = c32.CONTEXTS_QUICK + ([] if ctx.quick else c32.CONTEXTS_MORE)
    n_ev = n_nt = 0
    for cp in range(ctx.k, sys.maxunicode + 1, ctx.n):
        if 0xD800 <= cp <= 0xDFFF or cp == 0x2E:
            continue
        c = chr(cp)
        for t in contexts:
            s = t.replace("{c}", c)
            n_ev += 1
            r = check_name(s)
            if r is not None:
                ctx.fail(dict(s=s), r[0], r[1])
            else:
                try:
                    if mangle(s) != s:
                        n_nt += 1
                except Exception:
                    pass
    ctx.bulk(n_ev, n_nt, cls="codepoint-sweep")
    ctx.samples.setdefault("codepoint-sweep", []).append(
        "contexts=%r over code points ≡ %d mod %d" % (contexts, ctx.k, ctx.n))

    def one(s):
        if not in_domain(s):
            ctx.count("skipped:hyx_-prefixed (outside the property's precondition)")
            return
        r = check_name(s)
        try:
            m = mangle(s)
        except Exception:
            m = None
        nt = m is not None and m != s
        ctx.case(key=s, nontrivial=nt, cls="random:" + ("escaped" if m and m.lstrip("_").startswith("hyx_") else "plain"),
                 sample=repr(s) + " -> " + repr(m))
        if r is not None:
            ctx.fail(dict(s=s), r[0], r[1])

    ctx.hyp(c32.name_strategy(), one, ctx.per_shard(30000, 600000), "names")


MATCHERS = {
    "nfkc_after_escaping": lambda case, bucket, detail: bucket.endswith("|nfkc-after-escaping-disturbs-escapes"),
    "unescaped_hyx_prefix": lambda case, bucket, detail: bucket.endswith("|unescaped-name-lands-in-hyx-prefix"),
}
