"""C39 hy.eval returns the last value and restores the caller's hy binding."""
import json

from vf import progs as P
from vf import proggen as G

PROP = "C39"
RULE = (
    "histories of 1..3 hy.eval calls on the same dictionaries. Each call evaluates an Engine-A program given as one (do ...) "
    "model, as the Lazy stream of hy.read_many, or as a single call form; namespaces: globals only, or globals + separate locals; "
    "a prior 'hy' entry is absent, a sentinel object, None, or the real module, in globals / locals / both; each call either runs "
    "clean, or gets an exception injected at one of its effect points (every point is tried for the first call of a history), or is "
    "a model that fails at compile time. Oracle: result = the reference interpreter's value of the last form; after EVERY call, "
    "normal or raising, ('hy' in d) == had_before and d['hy'] is the same object, for every dictionary passed. "
    "Second leg: histories of 1..3 calls whose last form is or ends in a bare name (name, setv-then-name, statement-needing last "
    "form, closure, augmented assignment) on dictionaries that bind the same names differently in globals and locals, also with fresh "
    "locals per call; reference = CPython's exec/eval of the equivalent Python on copies of the dictionaries (value, exception type, "
    "watched names afterwards). Non-trivial = the call raised (at run or compile time) or a prior hy entry existed, or separate "
    "locals; distinct by (sources, plan)"
)
ASSUMPTIONS = ["reference interpreter vf/progs.py for the returned value", "programs are wrapped in a function call so that their variables are function locals under any namespace arrangement"]

SENTINEL = object()


def make_model(src, kind):
    import hy

    if kind == "lazy":
        return hy.read_many(src)
    return hy.read(src)


def source_for(prog, kind):
    forms = [P.render(f) for f in prog]
    body = " ".join(forms)
    if kind == "lazy":
        # several top-level forms; the last one gives the value
        return "(defn MAIN [] %s)\n(setv UNUSED [:kw 'q])\n(MAIN)" % body
    # a keyword literal and a quoted form compile to code that needs the run-time `hy` module, whatever the caller's
    # dictionary binds `hy` to
    if kind == "do-expr":
        return "(do (defn MAIN [] %s) :kw '(q :k) (MAIN))" % body
    return "((fn [] :kw '[q] %s))" % body


def run_history(case):
    """-> None | (bucket, detail)"""
    import hy

    prior = case["prior"]
    where = case["where"]
    g = {}
    l = {} if case["dicts"] == "globals+locals" else None
    prior_obj = {"sentinel": SENTINEL, "none": None, "module": hy}.get(prior)
    if prior != "absent":
        if where in ("globals", "both") or l is None:
            g["hy"] = prior_obj
        if l is not None and where in ("locals", "both"):
            l["hy"] = prior_obj
    before = [(d, "hy" in d, d.get("hy")) for d in (g, l) if d is not None]
    for step, call in enumerate(case["calls"]):
        h = P.Harness(call.get("fault"))
        g.update(h.namespace())
        if call.get("bad"):
            src = call["bad"]
            ref = None
        else:
            src = source_for(call["prog"], call["kind"])
            ref = P.interpret(call["prog"], "function", call.get("fault"))
        out = dict(value=None, exc=None)
        try:
            model = make_model(src, call.get("kind", "do-expr"))
            v = hy.eval(model, g, l) if l is not None else hy.eval(model, g)
            out["value"] = P.canon(v)
        except (P.XA, P.XB, P.XC) as x:
            out["exc"] = "%s:%s" % (type(x).__name__, x.payload)
        except SyntaxError as x:
            out["exc"] = "SyntaxError"
        except Exception as x:  # noqa
            out["exc"] = "python:" + type(x).__name__
        for d, had, obj in before:
            name = "globals" if d is g else "locals"
            if ("hy" in d) != had:
                return ("hy-entry-%s-after-%s" % ("appeared" if not had else "vanished", "raise" if out["exc"] else "return"),
                        dict(source=src, step=step, dict=name, prior=prior, where=where, dicts=case["dicts"], outcome=out))
            if had and d["hy"] is not obj:
                return ("hy-entry-replaced-after-%s" % ("raise" if out["exc"] else "return"),
                        dict(source=src, step=step, dict=name, prior=prior, where=where, dicts=case["dicts"], outcome=out, now=repr(d["hy"])[:80]))
        if ref is not None:
            if ref["exc"] != out["exc"]:
                return ("exception-differs", dict(source=src, step=step, expected=ref["exc"], actual=out))
            if ref["exc"] is None and ref["value"] != out["value"]:
                return ("value-differs", dict(source=src, step=step, expected=ref["value"], actual=out["value"]))
        elif out["exc"] is None:
            return ("bad-model-accepted", dict(source=src, step=step, value=out["value"]))
    return None


# ---------------------------------------------------------------- name lookup across separate globals / locals
NAME_FORMS = {
    "name": ("%(n)s", "", "%(n)s"),
    "set-then-name": ("(do (setv %(n)s %(k)d) %(n)s)", "%(n)s = %(k)d", "%(n)s"),
    "derived": ("(do (setv t (+ %(n)s 1)) [%(n)s t])", "t = %(n)s + 1", "[%(n)s, t]"),
    "statement-last-form": ("(if (do (setv u %(k)d) True) (do (setv q 1) \"A%(k)d\") \"B\")", "u = %(k)d\nq = 1", "'A%(k)d'"),
    "arithmetic": ("(+ %(n)s %(k)d)", "", "%(n)s + %(k)d"),
    "closure": ("((fn [] %(n)s))", "", "(lambda: %(n)s)()"),
    "two-names": ("[%(n)s %(m)s]", "", "[%(n)s, %(m)s]"),
    "augmented": ("(do (+= %(n)s %(k)d) %(n)s)", "%(n)s += %(k)d", "%(n)s"),
}
NAMES = ["a", "b"]


def check_names(case):
    """histories of hy.eval calls whose last form is (or ends in) a bare name, on dictionaries that bind the same names
    differently; CPython's exec/eval of the equivalent Python on copies of the dictionaries is the reference"""
    import hy

    g = dict(case["g"])
    l = dict(case["l"]) if case["l"] is not None else None
    g2 = dict(g)
    l2 = dict(l) if l is not None else None
    for step, call in enumerate(case["calls"]):
        form = NAME_FORMS.get(call["form"])
        if form is None or call["n"] not in NAMES or call["m"] not in NAMES:
            return None
        sub = dict(n=call["n"], m=call["m"], k=int(call["k"]))
        hsrc, pstmts, pexpr = (x % sub for x in form)
        fresh_locals = call.get("fresh_locals") and l is not None
        ll, ll2 = ({}, {}) if fresh_locals else (l, l2)

        def py():
            if pstmts:
                exec(compile(pstmts, "<ref>", "exec"), g2, ll2) if ll2 is not None else exec(compile(pstmts, "<ref>", "exec"), g2)
            return eval(pexpr, g2, ll2) if ll2 is not None else eval(pexpr, g2)

        def hyrun():
            return hy.eval(hy.read(hsrc), g, ll) if ll is not None else hy.eval(hy.read(hsrc), g)

        outs = []
        for f in (py, hyrun):
            try:
                outs.append("value:%r" % (f(),))
            except RecursionError:
                raise
            except Exception as e:  # noqa
                outs.append("raise:" + type(e).__name__)
        if outs[0] != outs[1]:
            return ("name-lookup-differs:%s:%s" % (call["form"], "separate-locals" if l is not None else "globals-only"),
                    dict(source=hsrc, python=(pstmts + " ; " + pexpr), step=step, globals=case["g"], locals=case["l"], fresh_locals=bool(fresh_locals),
                         expected=outs[0], actual=outs[1]))
        watch = NAMES + ["t", "u", "q"]
        for label, d, d2 in (("globals", g, g2), ("locals", ll, ll2)):
            if d is None:
                continue
            a = {k: d.get(k, "<absent>") for k in watch}
            b = {k: d2.get(k, "<absent>") for k in watch}
            if a != b:
                return ("namespace-differs-after-call:" + label, dict(source=hsrc, step=step, expected=b, actual=a))
    return None


def check_case(case):
    if case.get("kind") == "names":
        return check_names(case)
    for c in case["calls"]:
        if "prog" in c and not P.valid(c["prog"]):
            return None
        if "bad" in c and c["bad"] not in BAD:
            return None
    return run_history(case)


BAD = ["(setv x)", "(break)", "(fn)", "(setv 1 2)", "(let [x])", "(if)", "(quote)", "(defn)", "(for [x] 1)", "(raise 1 2 3 4)", "(import [)", '(print "a" #** )', "(.)"]


def shard(ctx):
    from hypothesis import strategies as st

    # (no `with`: its one recorded value defect, C09-with-exit-raises-after-body, is C09's subject, not hy.eval's)
    forms = ["do2", "if", "when", "cond", "and", "or", "setv", "setx", "let", "while", "for", "try", "raise", "return", "break", "continue", "lfor", "callfn"]
    prog = G.program(budget=25 if ctx.quick else 40, depth=3, faults=True, forms=forms)
    call = st.one_of(
        st.builds(lambda p, k: dict(prog=p, kind=k), prog, st.sampled_from(["do-expr", "lazy", "single-call"])),
        st.builds(lambda p, k: dict(prog=p, kind=k), prog, st.sampled_from(["do-expr", "lazy", "single-call"])),
        st.builds(lambda b: dict(bad=b, kind="do-expr"), st.sampled_from(BAD)),
    )
    hist = st.builds(lambda calls, dicts, prior, where, fk, fc: dict(calls=calls, dicts=dicts, prior=prior, where=where, fk=fk, fc=fc),
                     st.lists(call, min_size=1, max_size=3), st.sampled_from(["globals", "globals+locals"]),
                     st.sampled_from(["absent", "sentinel", "none", "module"]), st.sampled_from(["globals", "locals", "both"]),
                     st.integers(0, 12), st.sampled_from(["XA", "XC"]))

    def one(case):
        fk, fc = case.pop("fk"), case.pop("fc")
        variants = [case]
        first = case["calls"][0]
        if "prog" in first:
            try:
                n = P.interpret(first["prog"], "function")["nevents"]
            except Exception:
                n = 0
            # every effect point of the first call raises once
            for k in range(1, n + 1):
                c2 = json.loads(json.dumps(case))
                c2["calls"][0]["fault"] = [[k, fc]]
                variants.append(c2)
        for c in case["calls"][1:]:
            if "prog" in c and fk:
                c["fault"] = [[fk, fc]]
        for v in variants:
            raised = any(c.get("fault") or c.get("bad") for c in v["calls"])
            key = json.dumps(v, sort_keys=True)
            srcs = " ;; ".join(c.get("bad") or source_for(c["prog"], c["kind"]) for c in v["calls"])
            ctx.case(key=key, nontrivial=raised or v["prior"] != "absent",
                     cls=["dicts:" + v["dicts"], "prior:" + v["prior"], "raising" if raised else "clean"],
                     sample="%s | dicts=%s prior hy=%s in %s | faults=%s" % (srcs[:300], v["dicts"], v["prior"], v["where"], [c.get("fault") for c in v["calls"]]))
            r = check_case(v)
            if r is not None:
                ctx.fail(v, r[0], r[1])

    ctx.hyp(hist, one, ctx.per_shard(700, 30000), "histories")

    binding = st.sampled_from(["none", "g", "l", "both"])
    ncall = st.builds(lambda f, n, m, k, fl: dict(form=f, n=n, m=m, k=k, fresh_locals=fl), st.sampled_from(sorted(NAME_FORMS)), st.sampled_from(NAMES),
                      st.sampled_from(NAMES), st.integers(2, 9), st.sampled_from([False, False, True]))

    def mk(ba, bb, sep, calls):
        g, l = {}, ({} if sep else None)
        for name, b, base in (("a", ba, 10), ("b", bb, 20)):
            if b in ("g", "both") or (b == "l" and l is None):
                g[name] = base
            if l is not None and b in ("l", "both"):
                l[name] = base + 5
        return dict(kind="names", g=g, l=l, calls=calls)

    def one_names(case):
        both = case["l"] is not None and any(n in case["g"] and n in case["l"] for n in NAMES)
        ctx.case(key=json.dumps(case, sort_keys=True), nontrivial=case["l"] is not None,
                 cls=["names:" + ("separate-locals" if case["l"] is not None else "globals-only")] + (["names:bound-in-both-dictionaries"] if both else [])
                 + ["names:form:" + c["form"] for c in case["calls"]],
                 sample="%s g=%s l=%s" % ([NAME_FORMS[c["form"]][0] % dict(n=c["n"], m=c["m"], k=c["k"]) for c in case["calls"]], case["g"], case["l"]))
        r = check_case(case)
        if r is not None:
            ctx.fail(case, r[0], r[1])

    ctx.hyp(st.builds(mk, binding, binding, st.booleans(), st.lists(ncall, min_size=1, max_size=3)), one_names, ctx.per_shard(4000, 120000), "names")


MATCHERS = {}
