"""C18 Reading any text yields models or a Hy syntax error (and terminates)."""
import glob
import json
import os
import signal
import sys

PROP = "C18"
RULE = (
    "texts (<= 4 KB) from (a) a weighted alphabet of Hy's syntax-significant characters and tokens, (b) arbitrary Unicode "
    "text (incl. NUL, lone surrogates, astral and combining characters), (c) repetitions of one or two tokens (nesting depth <= 80 each: the reader's time grows roughly cubically with nesting depth, 2.6 s at depth 150, so deeper inputs only cost time), (d) unclosed prefixes nested deeper than the interpreter's recursion limit allows, (e) well-formed Engine-B programs cut at a random point with a trailing newline/space/stray delimiter appended, (f) mutations (delete/insert/duplicate/swap "
    "spans, flip a delimiter, truncate) of windows of /repo/tests/**/*.hy, (g) such texts ending in 1-8 line terminators (as str.splitlines counts them) and characters that are white space to Python but not to Hy's reader (U+0085, U+00A0, U+2028, U+3000, FS..US, ...); oracle: list(hy.read_many(text)) returns models "
    "or raises LexException/PrematureEndOfInput, nothing else, within 20 s (re-run with 120 s before reporting; the read runs in a helper process that can be killed); non-trivial = the text contains a "
    "syntax-significant character ( ) [ ] { } \" # \\ ; ' ` ~ and is distinct"
)
ASSUMPTIONS = ["termination is observed through a 20 s limit per read (alarm inside a helper process, which is killed if the read is stuck in C code), re-run with 120 s (inputs normally read in < 10 ms)"]

TOKENS = [
    "(", ")", "[", "]", "{", "}", '"', "'", "`", "~", "~@", "#", "#*", "#**", "#^", "#_", "#(", "#{", "#[", "#[[", "]]",
    "#[f[", "]f]", "#[=[", "]=]", ";", "\n", "\r", "\r\n", " ", "\t", "\x0b", "\x0c", ":", ".", "..", "...", "\\", "\\\\",
    '\\"', "\\n", "\\x", "\\x4", "\\x41", "\\N{", "\\N{DIGIT ONE}", "\\u", "\\u00e9", "\\U", "\\U0001F600", "\\q", "\\8",
    "\\0", "\\777", "\\xg", "\\x\"",  "{{", "}}", "!r", "!s", "!a", "!", "=", "f\"", "b\"", "r\"", "br\"", "rb\"", "fr\"", "t\"", "bf\"",
    "ff\"", "x\"", "0", "1", "7", "12", "1.5", "1e3", "1e", "0x", "0xF", "0b2", "1_0", "1,0", "1j", "j", "+", "-", "-1",
    "1+2j", "NaN", "Inf", "-Inf", "nan", "_", ",", "a", "b", "f", "r", "t", "N", "u", "U", "x", "e", "E", "foo", "a.b",
    ".a", "a.", "a..b", ":k", ":", "::", ":a.b", "#!", "#!/usr/bin/env hy\n", "\x00", "\ud800", "\udfff", "é", "🦑",
    "̇", "​", " ", "\x85", "\xa0", "#foo", "#.", "#:", "#'", "#\"", "#;", "#)", "#]", "# ", "#\n", "@", "^", "&",
    "|", "<", ">", "*", "/", "%", "$", "?", "quote", "unpack-iterable", "annotate", "None", "True",
]
SIGNIFICANT = set("()[]{}\"#\\;'`~")

_FILES = None


def repo_texts():
    global _FILES
    if _FILES is None:
        out = []
        for p in sorted(glob.glob("/repo/tests/**/*.hy", recursive=True)) + sorted(glob.glob("/repo/hy/**/*.hy", recursive=True)):
            try:
                with open(p, encoding="utf-8") as f:
                    out.append(f.read())
            except OSError:
                pass
        _FILES = out or ['(print "hello")']
    return _FILES


class _Timeout(BaseException):
    pass


def _alarm(signum, frame):
    raise _Timeout()


_HELPER = [None]


def read_outcome(text, limit=20):
    """The read happens in a helper process (one per shard, started on first use): a read stuck inside C code (e.g. a
    backtracking regular expression) cannot be interrupted by a Python signal handler, but the helper can be killed."""
    import select
    import subprocess

    from vf import core

    h = _HELPER[0]
    if h is None or h.poll() is not None:
        h = _HELPER[0] = subprocess.Popen([sys.executable, "-c", "from vf.props import c18; c18._serve()"], stdin=subprocess.PIPE,
                                          stdout=subprocess.PIPE, cwd=core.ROOT)
    try:
        h.stdin.write(json.dumps([text, limit]).encode() + b"\n")
        h.stdin.flush()
        ready, _, _ = select.select([h.stdout], [], [], limit + 20)
        line = h.stdout.readline() if ready else b""
    except (BrokenPipeError, OSError):
        ready, line = True, b""
    if not ready:
        h.kill()
        h.wait()
        _HELPER[0] = None
        return ("timeout",)
    if not line:
        rc = h.wait()
        _HELPER[0] = None
        return ("other", "InterpreterDied", "exit-%s" % rc, "the reading process died (exit status %s)" % rc)
    return tuple(json.loads(line))


def _serve():
    for line in sys.stdin.buffer:
        text, limit = json.loads(line)
        sys.stdout.write(json.dumps(_read_outcome_here(text, limit)) + "\n")
        sys.stdout.flush()


def _read_outcome_here(text, limit=20):
    """-> ('models', n) | ('LexException', msg) | ('PrematureEndOfInput', msg) | ('other', type, msg) | ('timeout',)"""
    import hy
    from hy.reader.exceptions import LexException, PrematureEndOfInput

    # Hypothesis raises the interpreter's recursion limit while a test runs; pin it relative to the current depth so
    # that a text behaves the same under the generator and in a plain replay.
    depth = 0
    f = sys._getframe()
    while f is not None:
        depth += 1
        f = f.f_back
    old_limit = sys.getrecursionlimit()
    sys.setrecursionlimit(depth + 1000)
    old = signal.signal(signal.SIGALRM, _alarm)
    signal.setitimer(signal.ITIMER_REAL, limit)
    try:
        try:
            ms = list(hy.read_many(text))
            return ("models", len(ms))
        except PrematureEndOfInput as e:
            return ("PrematureEndOfInput", str(e.msg)[:80])
        except LexException as e:
            return ("LexException", str(e.msg)[:80])
        except _Timeout:
            return ("timeout",)
        except BaseException as e:  # noqa
            import traceback

            tb = traceback.extract_tb(e.__traceback__)
            where = next((f"{os.path.basename(f.filename)}:{f.name}" for f in reversed(tb) if "/hy/" in f.filename), "?")
            return ("other", type(e).__name__, where, str(e)[:120])
    finally:
        signal.setitimer(signal.ITIMER_REAL, 0)
        signal.signal(signal.SIGALRM, old)
        sys.setrecursionlimit(old_limit)


def check_text(text):
    out = read_outcome(text)
    if out[0] in ("models", "LexException", "PrematureEndOfInput"):
        return None, out
    if out[0] == "timeout":
        out2 = read_outcome(text, limit=120)
        if out2[0] != "timeout":
            return None, out2
        return ("no-termination", dict(text=text)), out
    return ("raised:%s@%s" % (out[1], out[2]), dict(text=text, error=out[3])), out


def check_case(case):
    return check_text(case["text"])[0]


def shrink(case, same, budget):
    from vf.core import shrink_text

    if read_outcome(case["text"], limit=5)[0] == "timeout":
        return case  # too slow to reduce; report as found

    return dict(text=shrink_text(case["text"], lambda t: same(dict(text=t)), budget))


def strategies():
    from hypothesis import strategies as st

    tok = st.sampled_from(TOKENS)
    alpha = st.lists(tok, min_size=0, max_size=40).map("".join)
    anytext = st.text(st.characters(), max_size=60)
    mixed = st.lists(st.one_of(tok, tok, tok, st.characters()), max_size=30).map("".join)

    files = repo_texts()

    @st.composite
    def mutated(draw):
        src = files[draw(st.integers(0, len(files) - 1))]
        if len(src) > 1500:
            a = draw(st.integers(0, len(src) - 1500))
            src = src[a:a + draw(st.integers(50, 1500))]
        for _ in range(draw(st.integers(1, 4))):
            if not src:
                break
            op = draw(st.sampled_from(["del", "ins", "dup", "swap", "flip", "trunc", "tok"]))
            i = draw(st.integers(0, len(src)))
            j = min(len(src), i + draw(st.integers(0, 12)))
            if op == "del":
                src = src[:i] + src[j:]
            elif op == "ins":
                src = src[:i] + draw(tok) + src[i:]
            elif op == "dup":
                src = src[:j] + src[i:j] + src[j:]
            elif op == "swap":
                k = min(len(src), j + draw(st.integers(0, 12)))
                src = src[:i] + src[j:k] + src[i:j] + src[k:]
            elif op == "flip":
                pos = [p for p, ch in enumerate(src) if ch in "()[]{}\""]
                if pos:
                    p = pos[draw(st.integers(0, len(pos) - 1))]
                    src = src[:p] + draw(st.sampled_from(list("()[]{}\"#\\"))) + src[p + 1:]
            elif op == "trunc":
                src = src[:i]
            else:
                src = src[:i] + draw(tok) + draw(tok) + src[j:]
        return src

    from vf import textgen as T

    def render_or_none(items):
        try:
            return T.render(items).text
        except ValueError:
            return ""

    wf = T.strategies(max_depth=3)["program"].map(render_or_none)
    cut = st.builds(lambda t, f, tail, ins: (t[: int(f * (len(t) + 1))] + ins + tail)[:4096], wf, st.floats(0, 1),
                    st.sampled_from(["", "", "\n", " ", "\r\n", "\t", "\n\n", " \n"]), st.sampled_from(["", "", "", "\\", "{", "}", '"', "#", "]"]))
    big = st.one_of(st.integers(0, 60), st.integers(1000, 2000))
    deep2 = st.builds(lambda t, n, suf: (t * n + suf)[:8192], st.sampled_from(["(", "[", "{", "#(", "#{", "'", "`", "~", "~@", "#* ", "#_ ", "#^ a ", '(f"{', "f\"{", "#[f[{"]), big,
                      st.sampled_from(["", "x", ")", "\n"]))
    deep = st.builds(
        lambda pre, t, n, mid, u, m, suf: (pre + t * n + mid + u * m + suf)[:4096],
        alpha.map(lambda x: x[:20]), tok, st.integers(0, 80), st.sampled_from(["", "x", " ", "\n", '"']),
        tok, st.integers(0, 80), alpha.map(lambda x: x[:20]))
    # texts (mostly malformed: cut programs, token soup) that END in line terminators as str.splitlines counts them and in
    # characters that are white space to Python's str methods but not to Hy's reader: the reader's line/column accounting and the
    # error constructors' view of the text (splitlines, strip) must agree or building the LexException itself fails (seeded C18-E)
    ends = st.lists(st.sampled_from(["\n", "\n", "\r", "\r\n", "\x0b", "\x0c", "\x1c", "\x1d", "\x1e", "\x1f", "\x85", "\u2028", "\u2029", "\u3000",
                                     "\xa0", "\u2003", " ", "\t"]), min_size=1, max_size=4).map("".join)
    odd_ends = st.builds(lambda t, e, mid, e2: (t[:4000] + e + mid + e2), st.one_of(cut, cut, mixed, alpha, deep2.map(lambda x: x[:50])), ends,
                         st.sampled_from(["", "", "", ")", "x", '"', "#", "\\"]), st.one_of(st.just(""), ends))
    return dict(alphabet=alpha, unicode=anytext, mixed=mixed, mutated=mutated(), deep=deep, wellformed_cut=cut, unclosed_deep=deep2, odd_line_ends=odd_ends)


def shard(ctx):
    strs = strategies()

    def runner(kind):
        def one(text):
            text = text[:8192]
            res, out = check_text(text)
            nt = bool(SIGNIFICANT.intersection(text))
            ctx.case(key=text, nontrivial=nt, cls="%s:%s" % (kind, out[0]), sample=text[:200])
            if res is not None:
                ctx.fail(dict(text=text), res[0], res[1])
        return one

    for kind, q, t in (("alphabet", 14000, 800000), ("mixed", 5000, 300000), ("unicode", 3000, 100000), ("mutated", 5000, 400000),
                       ("deep", 1000, 40000), ("wellformed_cut", 9000, 600000), ("unclosed_deep", 500, 8000), ("odd_line_ends", 5000, 300000)):
        ctx.hyp(strs[kind], runner(kind), ctx.per_shard(q, t), kind)


MATCHERS = {}
