"""C12 Compiler-introduced names are reserved and never clobber user names."""
import ast
import itertools
import json

from vf import progs as P
from vf import proggen as G
from vf.props import c14

PROP = "C12"
RULE = (
    "Engine-A programs (C01 language) whose variables are renamed at random to look-alikes of compiler temporaries "
    "(anon_1, let_x_1, exc_e_2, hyx_a, _hyx_a, hy_anon_1, _hy, hy, anon, ...). Static oracle: every identifier in a binding or "
    "reference position of the compiled module (Name, def/class names, parameters, except names, global/nonlocal, import aliases, "
    "keyword-argument names, match captures) and every attribute name that is not one of the program's own names after hy.mangle "
    "(nor a harness global) must be 'hy' or start with '_hy_'. Dynamic oracle: collections/calls/operators ALL of whose arguments "
    "are statement-lifted constructs (if/try/with/and/or/let/lfor/while...), so that every temporary is live at once, must give the "
    "reference interpreter's value, and sentinel user variables assigned before the construct must hold their values after it. "
    "The all-lifted construct is also placed in the else position of an if and in a later clause of a cond (chained ifs). Third leg: "
    "Engine-C scoping programs (lets that re-bind a name in one list, closures, comprehensions): same static oracle, behaviour "
    "compared with vf/scopes.py's reference. Non-trivial = the compiled module contains >= 2 distinct _hy_ temporaries; distinct by source"
)
ASSUMPTIONS = ["reference interpreter vf/progs.py for the dynamic part", "hy.mangle maps program names to their identifiers (C32/C34 check that separately)"]

LOOKALIKES = ["anon_1", "anon_2", "let_x_1", "let_l1_1", "exc_e_2", "hyx_a", "_hyx_a", "hy_anon_1", "_hy", "hy_", "anon", "_anon_1", "hyx_anon_1",
              "anon-1", "let-x-1", "_h", "__hy", "hy-anon-1", "temp", "__", "_1"]
HARNESS = {"E", "CM", "XA", "XB", "XC", "RESULT", "MAIN", "Exception"}


def identifiers(tree):
    out = set()
    for n in ast.walk(tree):
        if isinstance(n, ast.Name):
            out.add(("name", n.id))
        elif isinstance(n, (ast.FunctionDef, ast.AsyncFunctionDef, ast.ClassDef)):
            out.add(("def", n.name))
        elif isinstance(n, ast.arg):
            out.add(("param", n.arg))
        elif isinstance(n, ast.ExceptHandler) and n.name:
            out.add(("except", n.name))
        elif isinstance(n, (ast.Global, ast.Nonlocal)):
            out.update(("scope-decl", x) for x in n.names)
        elif isinstance(n, ast.alias):
            out.add(("import", (n.asname or n.name).split(".")[0]))
        elif isinstance(n, ast.keyword) and n.arg:
            out.add(("keyword", n.arg))
        elif isinstance(n, ast.Attribute):
            out.add(("attribute", n.attr))
        elif isinstance(n, ast.MatchAs) and n.name:
            out.add(("capture", n.name))
        elif isinstance(n, ast.MatchStar) and n.name:
            out.add(("capture", n.name))
        elif isinstance(n, ast.MatchMapping) and n.rest:
            out.add(("capture", n.rest))
    return out


def check_scopes(case):
    """Engine C programs (lets with re-binding, closures, comprehensions, classes): static name check + behaviour"""
    import re
    import types

    import hy
    import hy.compiler
    from vf import scopes as S

    prog = case["scopes"]
    try:
        if S.comp_conflict(prog) or S.reference(prog)[0] != "ok":
            return None
        src = S.render(prog)
    except (KeyError, IndexError, TypeError, ValueError):
        return None
    mod = types.ModuleType("vfprog12s")
    try:
        tree = hy.compiler.hy_compile(hy.read_many(src), mod, filename="<c12>", source=src)
    except SyntaxError:
        return None
    own = re.compile(r"^(x|y|z|w|[fgCma]\d+|MAIN|REC|self|range|hy)$")
    for kind, ident in sorted(identifiers(tree)):
        if own.match(ident) or ident.startswith("_hy_"):
            continue
        return ("foreign-name:%s:%s" % (kind, ident), dict(source=src, identifier=ident, kind=kind, python=ast.unparse(tree)[:600]))
    r = S.compare(prog)
    if r is not None and not r[0].startswith("skip"):
        return ("dynamic:scoping-program:" + r[0].split(":")[0], r[1])
    return None


def check_case(case):
    import hy

    if "scopes" in case:
        return check_scopes(case)
    prog = case["prog"]
    if not P.valid(prog):
        return None
    names = case.get("names", {})
    rprog = c14.rename(prog, names)
    mode = case.get("mode", "module")
    src = P.wrap_source(rprog, mode)
    try:
        mod, tree = P.compile_source(src, "vfprog12")
    except SyntaxError:
        return None
    own = {hy.mangle(n) for n in c14.names_of(rprog)} | HARNESS
    if '"pop"' in json.dumps(rprog):
        own.add("pop")  # the program's own (.pop q) method call
    for kind, ident in sorted(identifiers(tree)):
        if ident in own or ident == "hy" or ident.startswith("_hy_"):
            continue
        if kind == "import" and ident == "hy":
            continue
        return ("foreign-name:%s:%s" % (kind, ident), dict(source=src, identifier=ident, kind=kind, python=ast.unparse(tree)[:600]))
    # dynamic: same oracle as C01 on the renamed program
    r = P.compare(rprog, mode)
    if r is not None:
        return ("dynamic:" + r[0], r[1])
    return None


def temporaries(src):
    try:
        mod, tree = P.compile_source(src, "vfprog12")
    except SyntaxError:
        return set()
    return {i for k, i in identifiers(tree) if i.startswith("_hy_")}


def temporaries_of_source(src):
    import types

    import hy
    import hy.compiler

    try:
        tree = hy.compiler.hy_compile(hy.read_many(src), types.ModuleType("vfprog12t"), filename="<c12>", source=src)
    except SyntaxError:
        return set()
    return {i for k, i in identifiers(tree) if i.startswith("_hy_")}


def all_lifted_program(budget, depth):
    """Strategy: sentinels; a collection/call/operator whose every argument is statement-lifted; sentinels read back."""
    from hypothesis import strategies as st

    @st.composite
    def build(draw):
        g = G.Gen(draw, budget=budget)
        env = G.Env()
        sent = []
        for i in range(draw(st.integers(1, 3))):
            n = "s%d" % i
            sent.append(["setv", [[n, ["lit", 100 + i]]]])
            env.vars[n] = "int"
        env.no_write = set(env.vars)
        n = draw(st.integers(2, 5))
        kind = draw(st.sampled_from(["list", "tuple", "call", "op", "dict"]))
        if_heavy = draw(st.integers(0, 2)) == 0  # every operand a statement-producing `if`: their result temporaries are all live at once
        wants = ["int"] * n if kind == "op" else ["any"] * n
        nodes, info = g.par(wants, depth, env)
        out = []
        for w, nd in zip(wants, nodes):
            if nd[0] in ("lit", "var", "eff", "list"):
                a, b = next(g.ids), next(g.ids)
                v = draw(st.integers(-2, 5))
                nd = ["if", ["eff", a, draw(st.integers(0, 1))], ["do", [["eff", b, None], ["lit", v]]], ["lit", v + 10]] if if_heavy else draw(st.sampled_from([
                    ["if", ["eff", a, 1], ["do", [["eff", b, None], ["lit", v]]], ["lit", 0]],
                    ["try", [["eff", a, v]], [], None, [["eff", b, None]]],
                    ["or", [["eff", a, 0], ["do", [["eff", b, None], ["lit", v]]]]],
                    ["with", [[None, a, 0, False]], [["eff", b, v]]],
                    ["let", [["l%d" % a, ["eff", a, v]]], [["eff", b, None], ["var", "l%d" % a]]],
                    ["do", [["eff", a, None], ["eff", b, v]]],
                ]))
            out.append(nd)
        if kind == "list":
            node = ["list", out]
        elif kind == "tuple":
            node = ["tuple", out]
        elif kind == "dict":
            node = ["dict", [[["lit", 10 + i], x] for i, x in enumerate(out)]]
        elif kind == "op":
            node = ["op", "+", out]
        else:
            ps = ["q%d" % i for i in range(n)]
            node = ["call", ["fn", ps, [["list", [["var", p] for p in ps][:3] + [["lit", 0]] * max(0, 3 - n)]]], out]
        # the construct also in the else position of an `if` / a later clause of a `cond` (where Hy chains ifs with a shared temporary)
        place = draw(st.sampled_from(["plain", "plain", "else-of-if", "second-cond-clause", "nested-else"]))
        c1, c2 = next(g.ids), next(g.ids)
        if place == "else-of-if":
            node = ["if", ["eff", c1, 0], ["lit", -1], ["if", ["eff", c2, 1], node, ["lit", -2]]]
        elif place == "second-cond-clause":
            node = ["cond", [[["eff", c1, 0], ["lit", -1]], [["eff", c2, 1], node]]]
        elif place == "nested-else":
            node = ["if", ["eff", c1, 0], ["lit", -1], ["if", ["eff", c2, 0], ["lit", -2], node]]
        tail = ["list", [["var", "s%d" % i] for i in range(len(sent))] + [["lit", 0]] * (3 - len(sent))]
        return sent + [["setv", [["r", node]]], ["tuple", [["var", "r"], tail]]]

    return build()


def nested_handlers_program():
    """Strategy: try forms nested 2-4 deep through handler bodies (or try bodies), the handlers binding variables drawn from
    a two-name pool (so nested handlers often bind the same name), each level raising a drawn class (the handler fires or
    not); every handler reads its variable before and after the nested try, so the temporaries of the levels must stay
    distinct and alive."""
    from hypothesis import strategies as st

    @st.composite
    def build(draw):
        ids = itertools.count(1)

        def level(d):
            var = draw(st.sampled_from(["e", "e", "x"]))
            cls = draw(st.sampled_from(["XA", "XB", "XC"]))
            caught = draw(st.sampled_from([[cls], [cls], ["XA", "XB", "XC"], ["Exception"], [{"XA": "XB", "XB": "XC", "XC": "XA"}[cls]]]))
            fires = draw(st.integers(0, 3)) != 0
            nested = level(d - 1) if d > 0 else ["eff", next(ids), 0]
            where = draw(st.sampled_from(["handler", "handler", "handler", "body"]))
            body = [["eff", next(ids), 0]]
            if where == "body":
                body.append(nested)
            body.append(["raise", cls, next(ids)] if fires else ["eff", next(ids), 1])
            hb = [["eff", next(ids), None], ["var", var]]
            if where == "handler":
                b = "b%d" % next(ids)
                hb = [["let", [[b, ["var", var]]], [nested, ["list", [["var", b], ["var", var]]]]]]
            fin = [["eff", next(ids), None]] if draw(st.integers(0, 3)) == 0 else None
            return ["try", body, [[var, caught, hb]], None, fin]

        depth = draw(st.integers(1, 3))
        prog = [["try", [level(depth)], [[None, [], [["eff", next(ids), "escaped"]]]], None, None]]
        return prog

    return build()


def shard(ctx):
    from hypothesis import strategies as st

    names = st.lists(st.sampled_from(LOOKALIKES), max_size=6, unique=True)
    modes = st.sampled_from(["module", "function"])

    def one(t):
        prog, mode, look = t
        ns = c14.names_of(prog)
        m = {}
        import hy

        used = {hy.mangle(n) for n in ns}
        for old, new in zip(ns, look):
            if hy.mangle(new) not in used and new not in HARNESS:
                m[old] = new
                used.add(hy.mangle(new))
        case = dict(prog=prog, mode=mode, names=m)
        src = P.wrap_source(c14.rename(prog, m), mode)
        temps = temporaries(src)
        ctx.case(key=src, nontrivial=len(temps) >= 2, cls=["temporaries:%d" % min(len(temps), 6), "lookalike-names:%d" % len(m)], sample=src)
        r = check_case(case)
        if r is not None:
            ctx.fail(case, r[0], r[1])

    ctx.hyp(st.tuples(G.program(budget=40 if ctx.quick else 70, depth=4 if ctx.quick else 5), modes, names), one, ctx.per_shard(800, 80000), "c01-programs")
    ctx.hyp(st.tuples(all_lifted_program(30 if ctx.quick else 50, 2 if ctx.quick else 3), modes, names), one, ctx.per_shard(800, 80000), "all-arguments-lifted")

    ctx.hyp(st.tuples(nested_handlers_program(), modes, names), one, ctx.per_shard(500, 20000), "nested-handlers")

    from vf import scopes as S

    def one_scopes(prog):
        case = dict(scopes=prog)
        r = check_case(case)
        src = S.render(prog)
        temps = temporaries_of_source(src)
        f = S.features(prog)
        ctx.case(key=src, nontrivial=len(temps) >= 2, cls=["scoping-program", "temporaries:%d" % min(len(temps), 6)] + (["let-rebinds-in-one-list"] if "let-rebinds-in-one-list" in f else []),
                 sample=src.replace("\n", " ")[:300])
        if r is not None:
            ctx.fail(case, r[0], r[1])

    ctx.hyp(S.program_strategy("let"), one_scopes, ctx.per_shard(800, 60000), "scoping-programs")


MATCHERS = {}
