"""C03 operator macros == hy.pyops functions == the documented Python expansion."""
import itertools

PROP = "C03"
RULE = (
    "every operator with a core macro (+ - * / // % ** @ << >> & | ^ bnot not = != < <= > >= is is-not in not-in) x every allowed "
    "arity 0..6 x operand vectors from a pool of ints, bools, floats (incl. inf/nan), strings, lists, tuples, sets/frozensets, dicts, "
    "None, a non-commutative matrix class (for @ and fold direction) and a class whose comparisons return non-bool truthy/falsy "
    "values; operands may alias (same object twice, for is/is-not). Arity <= 2 is enumerated over the full pool, arity 3 over a "
    "reduced pool (thorough: the full pool for 3), arities 4..6 are Hypothesis-drawn. Each vector is evaluated (1) by the compiled "
    "macro form with the operands bound to variables, (2) by the same-named hy.pyops function, (3) by CPython evaluating the "
    "expansion the pyops docs state (nullary/unary forms, 'a1 op a2 op ... an' with Python's own associativity and comparison "
    "chaining), (4) by macro calls containing #* at a drawn split, (5) for op= with >= 2 arguments by Python's 'x op= <documented "
    "aggregator expansion>' on a name, a subscript and an attribute target. All must agree on (type, repr) of the value or on the "
    "exception type. Non-trivial = arity >= 3, or an exception outcome, or a #* / augmented form; distinct by (operator, form, operand sources)"
)
ASSUMPTIONS = [
    "CPython evaluates the documented expansion (operator precedence, right-associative **, chained comparison) - it is the reference",
    "documented nullary/unary/aggregator table transcribed from the hy.pyops docstrings of the pinned tree (and cross-checked against them at start-up)",
    "operand vectors whose exact result would be astronomically large (towers of **) are excluded by construction",
]

# operator -> (python token, min arity, max arity)
MATHS = {
    "+": ("+", 0, 6), "*": ("*", 0, 6), "|": ("|", 0, 6),
    "-": ("-", 1, 6), "/": ("/", 1, 6), "&": ("&", 1, 6), "@": ("@", 1, 6),
    "**": ("**", 2, 6), "//": ("//", 2, 6), "<<": ("<<", 2, 6), ">>": (">>", 2, 6),
    "%": ("%", 2, 2), "^": ("^", 2, 2),
}
COMPARE = {
    "=": ("==", 1, 6), "is": ("is", 1, 6), "<": ("<", 1, 6), "<=": ("<=", 1, 6), ">": (">", 1, 6), ">=": (">=", 1, 6),
    "!=": ("!=", 2, 6), "is-not": ("is not", 2, 6), "in": ("in", 2, 6), "not-in": ("not in", 2, 6),
}
UNARY_ONLY = {"bnot": "~x", "not": "not x"}
OPS = {**MATHS, **COMPARE, "bnot": ("~", 1, 1), "not": ("not", 1, 1)}
NULLARY_DOC = {"+": "0", "*": "1", "|": "0"}
UNARY_DOC = {"+": "+x", "-": "-x", "/": "1 / x", "*": "x", "&": "x", "|": "x", "bnot": "~x", "not": "not x",
             "=": "True", "is": "True", "<": "True", "<=": "True", ">": "True", ">=": "True"}
# (@ x) has no documented unary form: macro and function are compared with each other only.
AGG_DOC = {"+": "+", "-": "+", "*": "*", "/": "*", "//": "*", "**": "**", "<<": "+", ">>": "+", "|": "|", "&": "&", "@": "@",
           "%": None, "^": None}


class M:
    """2x2 integer matrix: associative, non-commutative @; nothing else."""

    def __init__(self, a, b, c, d):
        self.t = (a, b, c, d)

    def __matmul__(self, o):
        if not isinstance(o, M):
            return NotImplemented
        a, b, c, d = self.t
        e, f, g, h = o.t
        return M(a * e + b * g, a * f + b * h, c * e + d * g, c * f + d * h)

    def __imatmul__(self, o):
        r = self @ o
        self.t = r.t
        return self

    def __repr__(self):
        return "M%r" % (self.t,)


class Q:
    """comparisons return a non-bool: 'y' (truthy) or 0 (falsy); - is non-associative"""

    def __init__(self, k):
        self.k = k

    def _c(self, o, f):
        if not isinstance(o, Q):
            return NotImplemented
        return "y%d%d" % (self.k, o.k) if f(self.k, o.k) else 0

    def __lt__(self, o):
        return self._c(o, lambda a, b: a < b)

    def __le__(self, o):
        return self._c(o, lambda a, b: a <= b)

    def __gt__(self, o):
        return self._c(o, lambda a, b: a > b)

    def __ge__(self, o):
        return self._c(o, lambda a, b: a >= b)

    def __eq__(self, o):
        return self._c(o, lambda a, b: a == b)

    def __ne__(self, o):
        return self._c(o, lambda a, b: a != b)

    def __hash__(self):
        return self.k

    def __repr__(self):
        return "Q(%d)" % self.k


EVAL_NS = {"M": M, "Q": Q, "float": float, "frozenset": frozenset, "set": set, "__builtins__": {}}

POOL = [
    "0", "1", "-1", "2", "3", "7", "-5", "1099511627776", "True", "False",
    "0.0", "0.5", "-2.5", "3.0", "0.1", "float('inf')", "float('nan')",
    "''", "'a'", "'ab'", "[]", "[1]", "[1, 2]", "(1, 2)", "[[1]]",
    "set()", "{1}", "{1, 2}", "frozenset({2, 3})", "{'a': 1}", "None",
    "M(1, 2, 3, 4)", "M(0, 1, 1, 0)", "M(2, 0, 1, 1)", "Q(1)", "Q(2)",
]
SMALL = ["0", "1", "-1", "2", "3", "True", "0.5", "0.1", "'a'", "[1]", "{1, 2}", "None", "M(1, 2, 3, 4)", "M(0, 1, 1, 0)", "Q(1)", "Q(2)"]
POW_POOL = ["-1", "0", "1", "2", "0.5", "2.0", "True", "False", "'a'", "None", "-2", "3"]
SHIFT_POOL = ["0", "1", "2", "3", "-1", "True", "7", "0.5", "'a'", "None"]
BIG = {"1099511627776"}
SEQ = {"''", "'a'", "'ab'", "[]", "[1]", "[1, 2]", "(1, 2)", "[[1]]"}


def pool_for(op, full=True):
    if op == "**":
        return POW_POOL
    if op in ("<<", ">>"):
        return SHIFT_POOL
    return POOL if full else SMALL


def tame(op, vals):
    """operand vectors we refuse to evaluate (size blow-ups); True = acceptable"""
    if op == "**":
        if any(v not in POW_POOL for v in vals):
            return False
        return sum(1 for v in vals if v in ("2", "2.0", "-2", "3")) <= 3 and vals.count("3") + vals.count("-2") <= 2
    if op in ("<<", ">>"):
        return all(v in SHIFT_POOL for v in vals)
    if op == "*":
        if any(v in BIG for v in vals) and any(v in SEQ for v in vals):
            return False
    return all(isinstance(v, str) and v in POOL for v in vals)


def values(vals):
    return [eval(v, dict(EVAL_NS)) for v in vals]  # noqa: S307 - literals from POOL only


def canon(v):
    return "%s:%r" % (type(v).__name__, v)


def outcome(f, *a):
    try:
        return canon(f(*a))
    except RecursionError:
        raise
    except Exception as e:  # noqa
        return "raise:" + type(e).__name__


_cache = {}


def hy_fn(src):
    import hy

    f = _cache.get(src)
    if f is None:
        try:
            f = hy.eval(hy.read(src), {"__name__": "c03mod", "hy": hy})
        except Exception as e:  # noqa
            f = ("compile-error", type(e).__name__, str(e)[:200])
        _cache[src] = f
    return f


def py_fn(src):
    f = _cache.get("py:" + src)
    if f is None:
        ns = {}
        exec(src, ns)  # noqa: S102
        f = _cache["py:" + src] = ns["f"]
    return f


def names(idx):
    return ["v%d" % i for i in idx]


def params(idx):
    return " ".join("v%d" % i for i in sorted(set(idx)))


def doc_expansion(op, n):
    """Python expression text over x0..x{n-1} that the docs give for (op x0 ... x{n-1}); None = not documented"""
    tok = OPS[op][0]
    if n == 0:
        return NULLARY_DOC.get(op)
    if n == 1:
        u = UNARY_DOC.get(op)
        return None if u is None else u.replace("x", "x0")
    return (" %s " % tok).join("x%d" % i for i in range(n))


def check_case(case):
    import hy
    import hy.pyops

    if case.get("doctable"):
        notes = doc_table_check()
        return ("documentation-table-drift", dict(notes=notes)) if notes else None
    op, vals, idx, form = case["op"], case["vals"], case["idx"], case["form"]
    if op not in OPS or not vals and idx or any(i >= len(vals) for i in idx):
        return None
    n = len(idx)
    lo, hi = OPS[op][1], OPS[op][2]
    operands_src = [vals[i] for i in idx]
    if not tame(op, operands_src):
        return None
    vs = values(vals)
    args = [vs[i] for i in idx]
    fn = getattr(hy.pyops, hy.mangle(op))

    if form == "aug":
        return check_aug(case, op, vals, idx)
    if not (lo <= n <= hi):
        return None

    # (2) function and (3) documented expansion
    r_fn = outcome(fn, *args)
    exp = doc_expansion(op, n)
    r_doc = None
    if exp is not None:
        pf = py_fn("def f(%s):\n    return %s\n" % (", ".join("x%d" % i for i in range(n)), exp))
        r_doc = outcome(pf, *args)
    # (1)/(4) macro form
    nm = names(idx)
    if form == "plain":
        body = "(%s %s)" % (op, " ".join(nm))
    else:  # star:i:j -> operands i..j-1 arrive through #*
        _, i, j = form.split(":")
        i, j = int(i), int(j)
        if not (0 <= i <= j <= n):
            return None
        body = "(%s %s #* [%s] %s)" % (op, " ".join(nm[:i]), " ".join(nm[i:j]), " ".join(nm[j:]))
    src = "(fn [%s] %s)" % (params(idx), body)
    hf = hy_fn(src)
    detail = dict(hy=body, operands=operands_src, function=r_fn, documented=r_doc, expansion=exp)
    if isinstance(hf, tuple):
        detail["macro"] = "%s: %s" % (hf[1], hf[2])
        return ("macro-form-does-not-compile:%s:%s" % (op, "plain" if form == "plain" else "star"), detail)
    uniq = sorted(set(idx))
    r_mac = outcome(hf, *[vs[i] for i in uniq])
    detail["macro"] = r_mac
    kind = "plain" if form == "plain" else "star"
    if r_doc is not None and r_mac != r_doc:
        return ("macro-vs-documented-python:%s:%s:n%s" % (op, kind, min(n, 3)), detail)
    if r_mac != r_fn:
        return ("macro-vs-pyops-function:%s:%s:n%s" % (op, kind, min(n, 3)), detail)
    if r_doc is not None and r_fn != r_doc:
        return ("function-vs-documented-python:%s:n%s" % (op, min(n, 3)), detail)
    return None


def check_aug(case, op, vals, idx):
    """(op= target a1 ... ak) == target op= (a1 agg a2 agg ... ak); idx[0] is the target's start value"""
    tgt = case.get("target", "name")
    if op not in MATHS or len(idx) < 2:
        return None
    k = len(idx) - 1
    agg = AGG_DOC[op]
    if k > 1 and agg is None:
        return None
    if not tame(op, [vals[i] for i in idx]) or (agg and not tame(agg, [vals[i] for i in idx[1:]])):
        return None
    tok = OPS[op][0]
    rhs = "x1" if k == 1 else (" %s " % OPS[agg][0]).join("x%d" % i for i in range(1, k + 1))
    ps = ", ".join("x%d" % i for i in range(k + 1))
    hps = " ".join("x%d" % i for i in range(k + 1))
    hargs = " ".join("x%d" % i for i in range(1, k + 1))
    if tgt == "name":
        py = "def f(%s):\n    x0 %s= %s\n    return x0\n" % (ps, tok, rhs)
        hs = "(fn [%s] (%s= x0 %s) x0)" % (hps, op, hargs)
    elif tgt == "get":
        py = "def f(%s):\n    L = [x0]\n    L[0] %s= %s\n    return L[0]\n" % (ps, tok, rhs)
        hs = "(fn [%s] (setv L [x0]) (%s= (get L 0) %s) (get L 0))" % (hps, op, hargs)
    else:
        py = "def f(%s):\n    o = type('O', (), {})()\n    o.a = x0\n    o.a %s= %s\n    return o.a\n" % (ps, tok, rhs)
        hs = "(fn [%s] (setv o ((type \"O\" #() {}))) (setv o.a x0) (%s= o.a %s) o.a)" % (hps, op, hargs)
    hf = hy_fn(hs)
    detail = dict(hy=hs, python=py, operands=[vals[i] for i in idx])
    if isinstance(hf, tuple):
        detail["macro"] = "%s: %s" % (hf[1], hf[2])
        return ("augmented-form-does-not-compile:%s=" % op, detail)
    a1 = [values(vals)[i] for i in idx]  # fresh objects per leg: op= may mutate
    a2 = [values(vals)[i] for i in idx]
    r_h = outcome(hf, *a1)
    r_p = outcome(py_fn(py), *a2)
    detail.update(macro=r_h, documented=r_p)
    if r_h != r_p:
        return ("augmented-vs-documented-aggregator:%s=:%s:k%s" % (op, tgt, min(k, 2)), detail)
    return None


def doc_table_check():
    """the transcribed table must be what the docstrings say (a drift is a harness matter, reported as a note)"""
    import re

    import hy
    import hy.pyops

    notes = []
    for op in MATHS:
        doc = getattr(hy.pyops, hy.mangle(op)).__doc__ or ""
        m = re.search(r"Aggregator for augmented assignment: :hy:func:`(\S+) <", doc)
        documented = m.group(1) if m else op
        want = AGG_DOC[op]
        if want is not None and documented != want:
            notes.append("docstring of %s names aggregator %s, table has %s" % (op, documented, want))
        for n, table in ((0, NULLARY_DOC), (1, UNARY_DOC)):
            m = re.search(r"``\(%s%s\)`` → ``([^`]*)``" % (re.escape(op), " x" if n else ""), doc)
            if (m.group(1) if m else None) != table.get(op):
                notes.append("docstring of %s: arity-%d form %r, table has %r" % (op, n, m.group(1) if m else None, table.get(op)))
    return notes


def run(ctx, case):
    op, n, form = case["op"], len(case["idx"]), case["form"]
    r = check_case(case)
    key = (op, form, case.get("target"), tuple(case["vals"][i] for i in case["idx"]))
    kind = "aug" if form == "aug" else ("plain" if form == "plain" else "star")
    ctx.case(key=key, nontrivial=(n >= 3 or kind != "plain"), cls=["op:" + op, "arity:%d" % n, "form:" + kind])
    if r is not None:
        ctx.fail(case, r[0], r[1])


def enum_cases(tier):
    """enumerated sub-domain: arity 0..2 over the full pool, arity 3 over the reduced pool (thorough: full)"""
    for op, (tok, lo, hi) in OPS.items():
        for n in range(lo, min(hi, 3) + 1):
            pool = pool_for(op, full=(n <= 2 or tier == "thorough"))
            for combo in itertools.product(pool, repeat=n):
                if tame(op, list(combo)):
                    yield dict(op=op, vals=list(combo), idx=list(range(n)), form="plain")
    for op in MATHS:  # augmented assignment, one or two extra arguments, reduced pool
        for k in (1, 2):
            if k == 2 and AGG_DOC[op] is None:
                continue
            pool = pool_for(op, full=False)
            for combo in itertools.product(pool, repeat=k + 1):
                for tgt in ("name", "get", "attr"):
                    yield dict(op=op, vals=list(combo), idx=list(range(k + 1)), form="aug", target=tgt)


def shard(ctx):
    from hypothesis import strategies as st

    if ctx.k == 0:
        r = check_case(dict(doctable=True))
        if r is not None:
            ctx.fail(dict(doctable=True), r[0], r[1])
    # enumerated part, striped over shards
    cnt = nt = 0
    for i, case in enumerate(enum_cases(ctx.tier)):
        if i % ctx.n != ctx.k:
            continue
        r = check_case(case)
        cnt += 1
        n = len(case["idx"])
        if n >= 3 or case["form"] != "plain" or (r is None and False):
            nt += 1
        ctx.count("op:" + case["op"])
        ctx.count("arity:%d" % n)
        ctx.count("form:" + ("aug" if case["form"] == "aug" else "plain"))
        if r is not None:
            ctx.fail(case, r[0], r[1])
    ctx.bulk(cnt, nt, "enumerated")

    # drawn part: arities 3..6, aliasing, #* splits, augmented with up to 5 extra arguments
    @st.composite
    def drawn(draw):
        form = draw(st.sampled_from(["plain", "plain", "star", "star", "aug"]))
        if form == "aug":
            op = draw(st.sampled_from(sorted(MATHS)))
            k = 1 if AGG_DOC[op] is None else draw(st.integers(1, 5))
            n = k + 1
        else:
            op = draw(st.sampled_from(sorted(OPS)))
            lo, hi = OPS[op][1], OPS[op][2]
            n = draw(st.integers(lo, hi))
        pool = pool_for(op)
        # bias towards vectors that do not raise: pick a "family" of mutually compatible values most of the time
        fam = draw(st.sampled_from(["any", "num", "num", "int", "seq", "set", "M", "Q"]))
        sub = {
            "num": [v for v in pool if v[0] in "-0123456789TF" and v not in BIG or v.startswith("float")],
            "int": [v for v in pool if v.lstrip("-").isdigit() or v in ("True", "False")],
            "seq": [v for v in pool if v in SEQ or v.lstrip("-").isdigit()],
            "set": [v for v in pool if "{" in v or v == "set()"],
            "M": [v for v in pool if v.startswith("M(")],
            "Q": [v for v in pool if v.startswith("Q(")],
        }.get(fam) or pool
        nv = draw(st.integers(1, max(1, n))) if n else 0
        vals = [draw(st.sampled_from(sub if draw(st.integers(0, 9)) else pool)) for _ in range(nv)]
        idx = [draw(st.integers(0, nv - 1)) for _ in range(n)] if n else []
        if nv == n and draw(st.booleans()):
            idx = list(range(n))
        if op == "**":
            while not tame(op, [vals[i] for i in idx]):
                j = draw(st.integers(0, nv - 1))
                vals[j] = draw(st.sampled_from(["0", "1", "-1", "0.5"]))
        case = dict(op=op, vals=vals, idx=idx, form=form)
        if form == "star":
            i = draw(st.integers(0, n))
            j = draw(st.integers(i, n))
            case["form"] = "star:%d:%d" % (i, j)
        if form == "aug":
            case["target"] = draw(st.sampled_from(["name", "get", "attr"]))
        return case

    ctx.hyp(drawn(), lambda c: run(ctx, c), ctx.per_shard(60000, 2000000), "drawn")


def EXHAUSTIVE(tier):
    return False


MATCHERS = {}
