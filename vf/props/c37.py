"""C37 Reader macros are defined and used in stream order and per module / per reader."""
import json
import os
import shutil
import sys
import types

from vf import c37_model as Mo
from vf import c37_gen as Gen
from vf import core

PROP = "C37"
RULE = (
    "generated source streams (1..4 per case) for two fresh modules (types.ModuleType, unique names) and 0..2 library modules written "
    "as .hy files under /verif/.work/c37/ (unique names, removed afterwards). A stream is a sequence of top-level forms: (defreader N body) "
    "with 8 body kinds (returns an integer / None / nothing at all / the symbol 'None / [id form] after consuming one form with "
    "parse-one-form / None after consuming one form / [id &key] / [id CT] where CT is a compile-time global), (require LIB :readers [names]) "
    "and :readers *, (eval-and-compile (setv CT n)) or a run-time (setv CT n), [items] (optionally wrapped (REC [items]) so that the value "
    "is recorded at run time), unbracketed items at top level, (do part part ...) mixing definitions, requires and uses in ONE top-level "
    "form, and (eval-when-compile (NRUN k)) which runs another stream (own reader, same or other module) in the middle of compiling this "
    "one. Items are integers, [..], #(..), #_ and #name uses, nested, with form-consuming reader macros applied to other uses. Names come "
    "from a pool of 6 (with -, ! and a non-ASCII letter), so redefinition and the same name in several modules/libraries are common. "
    "Each stream is driven either as hy.eval(hy.read_many(text), module=M) (lazy), or form by form (for f in read_many: hy.eval(f, "
    "module=M)) interleaved with the other streams by a drawn schedule, or nested; a stream may reuse the reader of a finished stream of "
    "the same module (read_many(text, reader=R)). Each stream holds at most one deliberately wrong use: never defined, defined later in "
    "the stream, defined/required in the same top-level form, or known only to another reader/module/library (incl. a library name "
    "that was not in the :readers list). Oracle = reference model (vf/c37_model.py, never imports hy) of (table per module, table per "
    "reader, CT per module): expected model and value of every form, expected SyntaxError and the form at which it happens, recorded "
    "values, last value; afterwards M._hy_reader_macros keys of both modules, the model hy.read('#name 1 2', reader=R) gives for every "
    "pool name with every stream's reader (syntax error for names the reader must not know), the LIBVAL values libraries computed with "
    "their own reader macros, and the negative control: list(hy.read_many(text)) with a fresh reader fails at the first use. "
    "Non-trivial = some use resolves through a definition/require made by an EARLIER top-level form of the same stream and the case has "
    ">=2 streams, a library or an expected error; distinct by the case JSON"
)
ASSUMPTIONS = [
    "'syntax error' = any SyntaxError subclass (Hy raises LexException); its message is not compared",
    "values of defreader/require/eval-and-compile forms themselves are not compared (not stated)",
    "a fresh reader (read_many without reader=) knows no user reader macros even when its module's _hy_reader_macros has them (HyReader docstring: only use_current_readers=True copies them)",
    "run-time (setv CT n) appears only in streams evaluated form by form; under hy.eval(read_many(..)) only compile-time evaluation precedes the next read",
    "form-consuming reader macros always find their form inside their own bracket group (running out of forms is not generated)",
]
NSHARDS = 16
BUDGET_QUICK = 120
BUDGET_THOROUGH = 1500

OPAQUE_HEADS = ("defreader", "require", "eval-and-compile", "eval-when-compile", "setv")
_counter = [0]


# ---------------------------------------------------------------------------- observation of real Hy


def canon_model(m):
    import hy.models as H

    if isinstance(m, H.Integer):
        return int(m)
    if isinstance(m, H.String):
        return ["s", str(m)]
    if isinstance(m, H.Symbol):
        return ["y", str(m)]
    if isinstance(m, H.List):
        return ["l", [canon_model(x) for x in m]]
    if isinstance(m, H.Tuple):
        return ["p", [canon_model(x) for x in m]]
    if isinstance(m, H.Expression):
        if m and isinstance(m[0], H.Symbol) and str(m[0]) in OPAQUE_HEADS:
            return ["opaque", str(m[0])]
        return ["e", [canon_model(x) for x in m]]
    return ["?", type(m).__name__, repr(m)[:80]]


def canon_value(v):
    if v is None:
        return None
    if isinstance(v, bool):
        return ["?", repr(v)]
    if isinstance(v, int):
        return v
    if isinstance(v, str):
        return ["s", v]
    if isinstance(v, list):
        return ["l", [canon_value(x) for x in v]]
    if isinstance(v, tuple):
        return ["p", [canon_value(x) for x in v]]
    return ["?", type(v).__name__, repr(v)[:80]]


def classify_exc(e):
    if isinstance(e, SyntaxError):
        return "syntax-error"
    return "exception:" + type(e).__name__


class Real:
    def __init__(self, case, uid, workdir):
        import hy  # noqa: F401

        self.case = case
        self.libnames = ["c37l_%s_%d" % (uid, k) for k in range(len(case["libs"]))]
        for k, forms in enumerate(case["libs"]):
            with open(os.path.join(workdir, self.libnames[k] + ".hy"), "w", encoding="utf-8") as f:
                f.write(Mo.lib_text(forms, self.libnames, k))
        self.texts = [Mo.stream_text(st, self.libnames) for st in case["streams"]]
        self.mods = [types.ModuleType("c37m_%s_%d" % (uid, i)) for i in (0, 1)]
        n = len(case["streams"])
        self.obs = [dict(status="not-run", forms=[], recs=[], final=None, msg=None, phase=None) for _ in range(n)]
        self.lazies = [None] * n
        self.cur = []
        for M in self.mods:
            M.CT = 0
            M.REC = self._rec
            M.NRUN = self._nrun

    def _rec(self, v):
        self.obs[self.cur[-1]]["recs"].append(canon_value(v))

    def _nrun(self, k):
        self.run_lazy(k)

    def _open(self, s):
        import hy

        r = self.case["streams"][s].get("reuse")
        reader = self.lazies[r].reader if r is not None else None
        self.lazies[s] = hy.read_many(self.texts[s], reader=reader) if reader is not None else hy.read_many(self.texts[s])
        self.obs[s]["status"] = "running"

    def run_lazy(self, s):
        import hy

        o = self.obs[s]
        if o["status"] != "not-run":
            raise RuntimeError("harness: stream %d run twice" % s)
        M = self.mods[self.case["streams"][s]["mod"]]
        self.cur.append(s)
        try:
            # the documented idiom, literally
            if self.case["streams"][s].get("reuse") is None:
                lz = hy.read_many(self.texts[s])
                self.lazies[s] = lz
                o["status"] = "running"
                v = hy.eval(lz, module=M)
            else:
                self._open(s)
                v = hy.eval(self.lazies[s], module=M)
            o["final"] = canon_value(v)
            o["status"] = "ok"
        except Exception as e:  # classified and compared with the model; anything unexpected is reported as such
            o["status"] = classify_exc(e)
            o["msg"] = "%s: %s" % (type(e).__name__, str(e)[:300])
        finally:
            self.cur.pop()

    def step(self, s):
        import hy

        o = self.obs[s]
        M = self.mods[self.case["streams"][s]["mod"]]
        try:
            if o["status"] == "not-run":
                self._open(s)  # read_many is documented to return a Lazy without reading; an error here counts as a read error
            f = next(self.lazies[s])
        except StopIteration:
            o["status"] = "ok"
            return True
        except Exception as e:
            o["status"] = classify_exc(e)
            o["phase"] = "read"
            o["msg"] = "%s: %s" % (type(e).__name__, str(e)[:300])
            return True
        o["forms"].append(dict(model=canon_model(f), value=None))
        self.cur.append(s)
        try:
            v = hy.eval(f, module=M)
        except Exception as e:
            o["status"] = classify_exc(e)
            o["phase"] = "eval"
            o["msg"] = "%s: %s" % (type(e).__name__, str(e)[:300])
            return True
        finally:
            self.cur.pop()
        o["forms"][-1]["value"] = canon_value(v)
        return False


def render(case):
    libnames = ["LIB%d" % k for k in range(len(case["libs"]))]
    out = []
    for k, forms in enumerate(case["libs"]):
        out.append(";; library %s\n%s" % (libnames[k], Mo.lib_text(forms, libnames, k).rstrip()))
    for s, st in enumerate(case["streams"]):
        out.append(";; stream %d: module M%d, %s%s\n%s" % (
            s, st["mod"], st["driver"], "" if st["reuse"] is None else ", reader of stream %d" % st["reuse"], Mo.stream_text(st, libnames)))
    out.append(";; schedule %s" % case["sched"])
    return "\n".join(out)


_wd = {}


def _cleanup(pid):
    if os.getpid() == pid:  # not in a forked child that inherited the registration
        d = _wd.pop(pid, None)
        if d:
            if d in sys.path:
                sys.path.remove(d)
            sys.path_importer_cache.pop(d, None)
            shutil.rmtree(d, ignore_errors=True)
            try:
                os.rmdir(os.path.dirname(d))
            except OSError:
                pass


def _workdir():
    """one scratch directory per process (rmdir is slow here), on sys.path while the process checks cases"""
    pid = os.getpid()
    if pid not in _wd:
        import atexit

        d = os.path.join(core.WORK, "c37", str(pid))
        shutil.rmtree(d, ignore_errors=True)
        os.makedirs(d)
        sys.path.insert(0, d)
        _wd[pid] = d
        atexit.register(_cleanup, pid)  # the parent (corpus, shrinking, replay); pool workers clean up in shard()
    return _wd[pid]


def check_case(case):
    try:
        E = Mo.expectations(case)
    except Mo.Invalid:
        return None
    import hy
    import importlib

    _counter[0] += 1
    uid = "%d_%d" % (os.getpid(), _counter[0])
    wd = _workdir()
    old_dwb = sys.dont_write_bytecode
    sys.dont_write_bytecode = True  # no .pyc for the throw-away libraries
    real = None
    try:
        real = Real(case, uid, wd)
        if case["libs"]:
            importlib.invalidate_caches()  # the directory listing cached by the path finder predates the new files
        Mo.drive(case, real)
        res = _compare(case, E, real)
        if hy.reader.HyReader._current_reader is not None:
            res = res or ("current-reader-left-set", dict(text=render(case)))
            hy.reader.HyReader._current_reader = None
        return res
    finally:
        sys.dont_write_bytecode = old_dwb
        if real is not None:
            for nme in real.libnames:
                sys.modules.pop(nme, None)
                try:
                    os.unlink(os.path.join(wd, nme + ".hy"))
                except OSError:
                    pass


def _compare(case, E, real):
    import hy

    text = render(case)

    def fail(bucket, **kw):
        kw["text"] = text
        return (bucket, kw)

    deferred = None
    for s, st in enumerate(case["streams"]):
        exp, got = E["streams"][s], real.obs[s]
        drv = st["driver"]
        tag = drv + ("+reused-reader" if st["reuse"] is not None else "")
        if exp["status"] == "not-run":
            if got["status"] != "not-run" and deferred is None:
                # only possible when the launching stream went past a point where the model says it stops; that stream's
                # own comparison names the cause, this is the fallback
                deferred = fail("nested:stream-ran-although-its-launch-point-is-unreachable", stream=s)
            continue
        if drv == "step":
            for i, ef in enumerate(exp["forms"]):
                if i >= len(got["forms"]):
                    break
                gf = got["forms"][i]
                if gf["model"] != ef["model"]:
                    return fail("%s:model-differs" % tag, stream=s, form=i, expected=ef["model"], actual=gf["model"])
                if got["phase"] == "eval" and i == len(got["forms"]) - 1:
                    break
                if ef["value"] != Mo.ANY and gf["value"] != ef["value"]:
                    return fail("%s:value-differs" % tag, stream=s, form=i, expected=ef["value"], actual=gf["value"])
        if got["status"] != exp["status"]:
            if got["status"] == "not-run":
                return fail("%s:not-run" % tag, stream=s, expected=exp["status"], note="the stream that launches it stopped early")
            if exp["status"] == "syntax-error":
                return fail("%s:missing-syntax-error:%s" % (tag, exp["err"]["why"]), stream=s, expected=exp["err"], actual=got["status"],
                            forms=got["forms"][len(exp["forms"]):][:2], final=got["final"])
            if got["status"] == "syntax-error":
                return fail("%s:unexpected-syntax-error" % tag, stream=s, message=got["msg"], after_forms=len(got["forms"]), expected_forms=exp["nforms"])
            return fail("%s:%s" % (tag, got["status"]), stream=s, message=got["msg"], expected=exp["status"])
        if drv == "step":
            if exp["status"] == "syntax-error" and got["phase"] != {"read": "read", "compile": "eval"}[exp["err"]["phase"]]:
                return fail("%s:syntax-error-in-wrong-phase" % tag, stream=s, expected=exp["err"], actual=got["phase"], message=got["msg"])
            if len(got["forms"]) != len(exp["forms"]):
                return fail("%s:form-count" % tag, stream=s, expected=len(exp["forms"]), actual=len(got["forms"]),
                            extra=got["forms"][len(exp["forms"]):][:2])
        if got["recs"] != exp["recs"]:
            return fail("%s:recorded-values-differ" % tag, stream=s, expected=exp["recs"], actual=got["recs"])
        if drv != "step" and exp["status"] == "ok" and exp["final"] != Mo.ANY and got["final"] != exp["final"]:
            return fail("%s:last-value-differs" % tag, stream=s, expected=exp["final"], actual=got["final"])
    if deferred is not None:
        return deferred
    # module tables
    for i, M in enumerate(real.mods):
        keys = sorted(getattr(M, "_hy_reader_macros", {}).keys())
        if keys != E["modkeys"][i]:
            extra = sorted(set(keys) - set(E["modkeys"][i]))
            return fail("module-table:%s" % ("extra-keys" if extra else "missing-keys"), module=i, expected=E["modkeys"][i], actual=keys)
    # libraries computed the right values with their own reader macros
    for k in E["libs_used"]:
        L = sys.modules.get(real.libnames[k])
        if L is None:
            return fail("library-not-imported", lib=k)
        vals = [canon_value(getattr(L, "LIBVAL%d" % j, "<missing>")) for j in range(len(E["libvals"][k]))]
        if vals != E["libvals"][k]:
            return fail("library-values-differ", lib=k, expected=E["libvals"][k], actual=vals)
        lk = sorted(k2 for k2 in getattr(L, "_hy_reader_macros", {}))
        ek = sorted(Mo.Model(case).libtab[k])
        if lk != ek:
            return fail("library-table-keys", lib=k, expected=ek, actual=lk)
    # what each reader knows now
    for s, row in enumerate(E["probes"]):
        lz = real.lazies[s]
        if lz is None:
            continue
        for name in sorted(row):
            ex = row[name]
            try:
                got = ["ok", canon_model(hy.read("#%s 1 2" % name, reader=lz.reader))]
            except Exception as e:
                got = [classify_exc(e)]
                msg = str(e)[:200]
            if got != ex:
                if ex[0] == "syntax-error" and got[0] == "ok":
                    return fail("reader-table:leak", stream=s, name=name, actual=got,
                                note="after the run, this stream's reader reads #%s although nothing defined or required it for that reader" % name)
                if ex[0] == "ok" and got[0] == "syntax-error":
                    return fail("reader-table:missing", stream=s, name=name, expected=ex, message=msg)
                return fail("reader-table:wrong-result", stream=s, name=name, expected=ex, actual=got)
    # negative control: reading everything before evaluating anything
    for s, ex in enumerate(E["eager"]):
        try:
            forms = list(hy.read_many(real.texts[s]))
            got = ["ok", len(forms)]
        except Exception as e:
            got = [classify_exc(e)]
        if got[0] != ex[0] or (ex[0] == "ok" and got[1] != ex[1]):
            return fail("eager-control:%s-expected-%s" % (got[0], ex[0]), stream=s, expected=ex, actual=got)
    return None


# ---------------------------------------------------------------------------- exploration


def shard(ctx):
    from hypothesis import strategies as st

    rnds = []
    total = int(os.environ.get("VF_C37_TOTAL", "0"))  # smaller runs while developing / for mutation trials on a busy machine
    n = max(1, total // ctx.n) if total else ctx.per_shard(1400, 120000)
    # every Random object is seeded by a Hypothesis draw, so the run is a function of VERIF_SEED
    ctx.hyp(st.randoms(use_true_random=True), rnds.append, n, "recipes")
    # cases are executed outside Hypothesis: require/enable_readers call inspect.stack(), which is slow under Hypothesis' deep stacks
    seen = set()
    try:
        invalid = [0]
        for rnd in rnds:
            if ctx.out_of_time():
                break
            case = Gen.concretize(Gen.make_recipe(rnd, ctx.quick))
            key = json.dumps(case, sort_keys=True)
            if key in seen:
                ctx.count("duplicate-skipped")
                continue
            seen.add(key)
            try:
                E = Mo.expectations(case)
            except Mo.Invalid as x:
                # the generator's bookkeeping and the model's domain check disagree on a rare shape (seen: a library whose
                # form-consuming reader macro is used as the last item of a group): not a case; counted, and a harness error
                # only if it stops being rare
                ctx.count("skipped:generated-case-outside-the-model's-domain")
                invalid[0] += 1
                if invalid[0] > 20 and invalid[0] * 10 > len(seen):
                    raise core.HarnessError("generator produces too many invalid cases (%d of %d), last: (%s) %s" % (invalid[0], len(seen), x, key[:400]))
                continue
            cls = ["driver:" + d for d in E["drivers"]] + list(E["features"])
            cls.append("streams:%d" % len(case["streams"]))
            cls.append("libs-used:%d" % len(E["libs_used"]))
            if any(o["status"] == "syntax-error" for o in E["streams"]):
                cls.append("expects-syntax-error")
            else:
                cls.append("expects-no-error")
            ctx.case(key=key, nontrivial=E["nontrivial"], cls=cls, sample=render(case))
            r = check_case(case)
            if r is not None:
                ctx.fail(case, r[0], r[1])
    finally:
        _cleanup(os.getpid())


MATCHERS = {}
