"""C35 Macro lookup and require follow the documented namespaces.

A case is a JSON history (vf/c35_model.py): two generated helper macro modules and a list of operations on a module under
construction.  check_case renders the history to Hy source, writes the three modules under /verif/.work/c35/<run>/, imports
them through Hy's importer and compares every recorded observation with the reference model.
"""
import json

from vf import c35_model as M

PROP = "C35"
RULE = (
    "case = history over a module under test and two generated helper macro modules (each defines a drawn subset of "
    "{m1 m2 _u m-x when is-not}, with _hy_export_macros absent, or set by setv / by (export :macros ...) to a drawn sublist, "
    "possibly empty or naming _u). Operations: defmacro of a pooled name; open/close a macro scope (defn, fn, defclass, lfor "
    "body, lfor :do clause, sfor, gfor, dfor) or a plain block (do, let, for: not a macro scope); require in every documented "
    "shape (bare module -> prefixed names, :as prefix incl. one that needs mangling, [m1 m2 :as x] incl. aliases equal to a "
    "core or an already used name, *, each with/without the :macros keyword, :readers * / [r] alone or combined, several "
    "entries per form), at module level or inside any scope; (pragma :warn-on-core-shadow b); call: record (name True _K) for "
    "a list of names or for every name of the case (pooled names, both spellings of mangled names, every prefix.name, the core "
    "macros when and is-not); eval: record (hy.eval '(name True _K)) with no macros=, a literal dictionary of fresh macros, or "
    "(local-macros); snap: record the keys of (local-macros). Every macro expands to its own integer, so the definition chosen "
    "is observable; an unresolved name is a NameError at run time. Four generators, interleaved: (1) enumerated precedence "
    "grid: name in {m1, when} x every subset of {module, outer scope, inner scope, macros=} defining it x inner scope kind x "
    "outer kind {defn, class}, observed inside, after the inner and after the outer scope; (2) enumerated require grid: 15 "
    "require forms x 4 export configurations x every place (module, 8 scope kinds, 3 plain blocks) followed by calls of every "
    "name inside and after the scope; (3) enumerated pragma grid: setting absent/False at module level x absent/False/True in "
    "an outer and an inner scope, a core name defined or required before and after every pragma and scope end (quick tier: "
    "one coordinate of each grid rotates instead of being multiplied out); (4) random histories of up to 24 (thorough 36) "
    "operations (Hypothesis; drawn first, executed outside its call stack). Oracle = reference "
    "model: one dictionary per macro scope + module dictionary + core set; lookup order macros= -> scopes innermost first -> "
    "module -> core; a scope's dictionary is discarded at its close; documented name sets per require shape (bare/:as: every "
    "macro of the module under mangle(prefix.name); names/aliases as listed; *: the export list, else names without leading "
    "underscore; :readers brings no macro); hy.eval sees the module table as it is at that moment of the run (whole file "
    "compiled first, definitions repeated at run time), never local macros. Also compared: the module's final _hy_macros key "
    "set, and the sequence of core-shadow RuntimeWarnings (expected for each definition/required name equal to a core macro "
    "unless the innermost enclosing scope with a pragma setting says False). (5) sessions: one module fed input by input to "
    "one hy.REPL (one long-lived compiler): module-level defmacro, calls, and inputs that define a local macro of a pooled name "
    "inside defn/fn/class/lfor or two nested scopes and then either call it or hit a compile-time error (7 kinds, incl. a raising "
    "local macro) in that scope; every later call must give the module macro's text or NameError and the final _hy_macros must be "
    "the module-level definitions (grid: scope x error x defined before/after/never; plus random sessions). Non-trivial = a name known to >=2 namespaces is "
    "called after a local scope that defined it closed, or macros= shadows a module/core macro; distinct by the rendered history"
)
ASSUMPTIONS = [
    "docs/api.rst require: '(require mymodule) assigns every macro foo in mymodule to (hy.mangle \"mymodule.foo\")', :as is the same "
    "with another prefix; _hy_export_macros 'define[s] which macros are collected by (require mymodule *)' only",
    "docs/macros.rst: local macros belong to function, class or comprehension scopes; do/let/for are not macro scopes (pragma doc: "
    "'function, class, or comprehension form (other than for)')",
    "hy.eval without macros= looks macros up in the calling module at the time of the call and does not see local macros (hy.eval "
    "docstring); the file is compiled as a whole before it runs and defmacro/require act 'at both compile-time and run-time'",
    "(local-macros) is used only where Python's own scoping lets the generated variables show the compile-time definitions (no "
    "class scope below the innermost scope, no name defined by two scopes of the stack); elsewhere the op is void and counted",
    "requiring a name the module lacks, reader macro use, get-macro and hy.R are not exercised",
]
LEVEL = "exploration"
NSHARDS = 16
BUDGET_QUICK = 240
BUDGET_THOROUGH = 1500


# ---------------------------------------------------------------------------------------------------------
# check_case


def check_case(case):
    if not isinstance(case, dict):
        return None
    if "session" in case:
        return check_session(case)
    plan, obs, mism = M.run(case)
    if not mism:
        return None
    focus = case.get("focus")
    for b, d in mism:
        if b == focus:
            return b, _detail(plan, obs, d, mism)
    b, d = mism[0]
    return b, _detail(plan, obs, d, mism)


def _detail(plan, obs, d, mism):
    d = dict(d)
    d["source"] = obs.get("source", "")[:6000]
    d["helper0"] = M.render_helper(0, plan["helpers"][0])
    d["helper1"] = M.render_helper(1, plan["helpers"][1])
    d["all_buckets"] = sorted({b for b, _ in mism})[:12]
    return d


def explained_by_prefix_filter(case, bucket, detail):
    """Root cause 'a prefixed require ((require m) / (require m :as P)) skips the macros that (require m *) would skip':
    the case agrees in every observation with the reference model changed in exactly that rule."""
    true = M.build(case)
    if not any(b["how"] in ("require-bare", "require-as") and not b["exported"] for bs in true["allb"].values() for b in bs):
        return False  # no prefixed require of the case meets a macro that * would skip: the rule plays no part
    plan = M.build(case, prefix_filtered=True)
    obs = M.execute(plan)
    return not M.compare(plan, obs)


MATCHERS = {"prefixed_require_filtered_by_exports": explained_by_prefix_filter}


def shrink(case, same, budget):
    from vf import core

    case = json.loads(json.dumps(case))
    if "session" in case:  # drop steps one at a time while the same bucket fails
        steps = case["session"]
        i = 0
        while i < len(steps):
            cand = steps[:i] + steps[i + 1:]
            try:
                ok = bool(cand) and same(dict(session=cand))
            except Exception:
                ok = False
            if ok:
                steps = cand
            else:
                i += 1
        return dict(session=steps)
    focus = case.pop("focus", None)
    if focus is not None:  # keep the focus out of the reducer's reach
        inner = same
        same = lambda c: inner(dict(c, focus=focus))  # noqa: E731
    # 1. narrow every call/eval to the name that disagrees
    r = check_case(dict(case, focus=focus) if focus else case)
    if r is not None and isinstance(r[1], dict) and r[1].get("name"):
        nm = r[1]["name"]
        cand = json.loads(json.dumps(case))
        for op in cand.get("ops", []):
            if isinstance(op, list) and op and op[0] in ("call", "eval") and len(op) > 1:
                op[1] = [nm]
        try:
            if same(cand):
                case = cand
        except Exception:
            pass
    small = core.shrink_json(case, same, budget)
    for h in small.get("helpers", []):  # the reducer shortens strings; restore the two that are not names
        if isinstance(h, dict) and h.get("via") != "export":
            h["via"] = "setv"
    return dict(small, focus=focus) if focus else small


# ---------------------------------------------------------------------------------------------------------
# sessions: one module compiled input by input with one long-lived compiler (hy.REPL), some inputs failing to compile

SESSION_NAMES = ["m1", "m2", "k-x"]
SESSION_SCOPES = ["defn", "fn", "class", "lfor", "class>defn", "defn>fn", "defn>lfor"]
SESSION_ERRORS = [None, "(if)", "(setv 1)", "(fn)", "(let [x])", "(do (defmacro bz [] (/ 1 0)) (bz))", "[1 (setv x)]"]


def _session_scoped(kind, body, n):
    """source of one input that evaluates `body` (a list of forms, the last one giving the value) inside the scope(s)"""
    parts = kind.split(">")
    k = parts[-1]
    forms = " ".join(body)
    if k == "defn":
        inner, use = "(defn f%d [] %s)" % (n, forms), "(f%d)" % n
    elif k == "fn":
        inner, use = "(setv f%d (fn [] %s))" % (n, forms), "(f%d)" % n
    elif k == "class":
        inner, use = "(defclass K%d [] %s (setv r %s))" % (n, " ".join(body[:-1]), body[-1]), "K%d.r" % n
    else:
        inner, use = "(setv l%d (lfor x [1] (do %s)))" % (n, forms), "(get l%d 0)" % n
    if len(parts) == 2:
        if parts[0] == "class":
            return "(defclass O%d [] %s (setv r %s)) O%d.r" % (n, inner, use, n)
        return "(defn o%d [] %s %s) (o%d)" % (n, inner, use, n)
    return "%s %s" % (inner, use)


def render_session(steps):
    """-> [(source, expectation)], final module macro names; expectation = ("value", text) | ("error", "compile" | "name")"""
    mod = {}
    out = []
    for n, st in enumerate(steps):
        op = st[0]
        if op == "def":
            name, v = st[1], "mod-%s-%d" % (st[1], n)
            out.append(('(defmacro %s [] "%s") "ok%d"' % (name, v, n), ("value", "ok%d" % n)))
            mod[name] = v
        elif op == "call":
            name = st[1]
            out.append(("(%s)" % name, ("value", mod[name]) if name in mod else ("error", "name")))
        else:  # ["scoped", kind, name, error index]
            kind, name, err = st[1], st[2], SESSION_ERRORS[st[3] % len(SESSION_ERRORS)]
            v = "loc-%s-%d" % (name, n)
            body = ['(defmacro %s [] "%s")' % (name, v)]
            if err:
                body.append(err)
            body.append("(%s)" % name)
            out.append((_session_scoped(kind, body, n), ("error", "compile") if err else ("value", v)))
    return out, set(mod)


def check_session(case):
    import contextlib
    import io
    import linecache
    import sys

    import hy
    from hy.errors import HyLanguageError
    from hy.repl import REPL

    plan, final = render_session(case["session"])
    _SESSION_N[0] += 1
    name = "c35_session_%d" % _SESSION_N[0]
    saved = {k: getattr(sys, k) for k in ("last_exc", "last_type", "last_value", "last_traceback") if hasattr(sys, k)}
    hook = sys.excepthook
    sys.excepthook = lambda t, v, tb: sys.stderr.write("%s\n" % t.__name__)
    repl = None
    try:
        repl = REPL(locals={"__name__": name}, output_fn=str)
        ename = hy.mangle("*e")
        for i, (src, (what, arg)) in enumerate(plan):
            out, err = io.StringIO(), io.StringIO()
            before = repl.locals.get(ename)
            with contextlib.redirect_stdout(out), contextlib.redirect_stderr(err):
                more = repl.runsource(src)
            exc = repl.locals.get(ename)
            exc = None if exc is before else exc
            if what == "value":
                got = out.getvalue().strip() if exc is None and not more else "<%s>" % (type(exc).__name__ if exc is not None else "incomplete")
                if got != arg:
                    kind = "leaked" if got.startswith("loc-") else "wrong"
                    return "session:%s-macro-after-failed-scope" % kind if any(w == "error" and a == "compile" for _, (w, a) in plan[:i]) else "session:%s-macro" % kind, dict(
                        step=i, input=src, expected=arg, got=got, inputs=[s for s, _ in plan])
            else:
                want = HyLanguageError if arg == "compile" else NameError
                if not isinstance(exc, want):
                    return "session:expected-%s-error" % arg, dict(step=i, input=src, got=out.getvalue().strip() or repr(exc), inputs=[s for s, _ in plan])
        keys = {hy.unmangle(k) for k in repl.locals.get("_hy_macros", {})}
        if keys != final:
            return "session:module-macro-table", dict(expected=sorted(final), got=sorted(keys), inputs=[s for s, _ in plan])
        return None
    finally:
        sys.excepthook = hook
        sys.modules.pop(name, None)
        for k in list(getattr(repl, "cmdline_cache", {})):
            linecache.cache.pop(k, None)
        for k in ("last_exc", "last_type", "last_value", "last_traceback"):
            if k in saved:
                setattr(sys, k, saved[k])
            elif hasattr(sys, k):
                delattr(sys, k)


_SESSION_N = [0]


def session_strategy(max_steps):
    from hypothesis import strategies as st

    name = st.sampled_from(SESSION_NAMES)
    step = st.one_of(
        st.tuples(st.just("def"), name).map(list),
        st.tuples(st.just("call"), name).map(list),
        st.tuples(st.just("call"), name).map(list),
        st.tuples(st.just("scoped"), st.sampled_from(SESSION_SCOPES), name, st.integers(0, len(SESSION_ERRORS) - 1)).map(list),
        st.tuples(st.just("scoped"), st.sampled_from(SESSION_SCOPES), name, st.integers(1, len(SESSION_ERRORS) - 1)).map(list),
    )
    return st.lists(step, min_size=3, max_size=max_steps).map(lambda steps: dict(session=steps + [["call", n] for n in SESSION_NAMES]))


def session_grid(full=True):
    """every scope kind x compile error, with the name defined at module level before, after or never"""
    for ki, kind in enumerate(SESSION_SCOPES):
        for e in range(len(SESSION_ERRORS)):
            for when in ("before", "after", "never"):
                steps = ([["def", "m1"]] if when == "before" else []) + [["scoped", kind, "m1", e], ["call", "m1"]]
                steps += ([["def", "m1"], ["call", "m1"]] if when == "after" else []) + [["def", "m2"], ["call", "m2"], ["call", "m1"]]
                yield dict(session=steps), "grid:session"


def _session_one(ctx, case, origin):
    plan, _ = render_session(case["session"])
    text = "\n".join(s for s, _ in plan)
    seen_err = False
    nontrivial = False
    for _, (w, a) in plan:
        if w == "error" and a == "compile":
            seen_err = True
        elif seen_err:
            nontrivial = True  # something is observed after an input whose scope was abandoned by a compile error
    ctx.case(key=text, nontrivial=nontrivial, cls=[origin, "session"], sample=text[:2000])
    r = check_session(case)
    if r is not None:
        ctx.fail(case, r[0], r[1])


# ---------------------------------------------------------------------------------------------------------
# generators

HELPER_CONFIGS = [
    dict(macros=["m1", "m2", "_u", "m-x", "when"], export=None, via="setv", quiet=False),
    dict(macros=["m1", "m2", "_u", "m-x", "when"], export=["m1", "_u", "m-x"], via="setv", quiet=False),
    dict(macros=["m-x", "_u", "is-not", "m1"], export=["m-x"], via="export", quiet=True),
    dict(macros=["m1", "_u"], export=[], via="setv", quiet=False),
]


def require_entries():
    out = []
    for kw in (False, True):
        out.append(dict(shape="as", prefix="P", kw=kw))
        out.append(dict(shape="star", kw=kw))
        out.append(dict(shape="names", names=[["m1", None], ["_u", "x"]], kw=kw))
    out.append(dict(shape="bare"))
    out.append(dict(shape="as", prefix="p-q"))
    out.append(dict(shape="as", prefix="D"))
    out.append(dict(shape="names", names=[["m1", "when"], ["m-x", None]]))
    out.append(dict(shape="names", names=[["_u", None], ["m1", "a-b"]], readers="list"))
    out.append(dict(shape="star", readers="star"))
    out.append(dict(shape="bare", readers="list"))
    out.append(dict(shape="none", readers="list"))
    out.append(dict(shape="none", readers="star"))
    return out


def require_grid(full=True):
    """every shape x export configuration x place (quick tier: the configuration rotates instead)"""
    places = [None] + M.REAL + M.PLAIN
    for ei, e in enumerate(require_entries()):
        for ci, cfg in enumerate(HELPER_CONFIGS):
            for pi, place in enumerate(places):
                if not full and (ei + pi) % len(HELPER_CONFIGS) != ci:
                    continue
                ent = dict(e, h=0)
                ops = [["def", "m1"]]
                if place is not None:
                    ops.append(["open", place])
                ops += [["req", [ent]], ["call", None], ["eval", None, "none", []]]
                if place is not None:
                    ops += [["snap"], ["close"]]
                ops += [["call", None]]
                yield dict(helpers=[cfg, HELPER_CONFIGS[(ci + 1) % len(HELPER_CONFIGS)]], ops=ops), "grid:require"


def precedence_grid(full=True):
    """name x subset of namespaces defining it x scope kinds (quick tier: the outer kind alternates instead)"""
    for name in ("m1", "when"):
        for mask in range(16):
            in_mod, in_outer, in_inner, in_eval = [bool(mask >> i & 1) for i in range(4)]
            for ii, inner in enumerate(M.REAL):
                for oi, outer in enumerate(("defn", "class")):
                    if not full and (mask + ii) % 2 != oi:
                        continue
                    ops = []
                    if in_mod:
                        ops.append(["def", name])
                    ops.append(["open", outer])
                    if in_outer:
                        ops.append(["def", name])
                    ops.append(["open", inner])
                    if in_inner:
                        ops.append(["def", name])
                    ops.append(["call", [name]])
                    ops.append(["eval", [name], "dict" if in_eval else "none", [name] if in_eval else []])
                    ops.append(["eval", [name], "local", []])
                    ops.append(["close"])
                    ops.append(["call", [name]])
                    ops.append(["close"])
                    ops.append(["call", [name]])
                    ops.append(["eval", [name], "dict" if in_eval else "none", [name] if in_eval else []])
                    yield dict(helpers=[HELPER_CONFIGS[0], HELPER_CONFIGS[3]], ops=ops), "grid:precedence"


def pragma_grid(full=True):
    """(pragma :warn-on-core-shadow v) absent/False at module level x absent/False/True in an outer and in an inner scope; a
    core name is defined or required before and after every pragma and after every scope end"""
    binders = [
        ["def", "when"],
        ["req", [dict(h=0, shape="names", names=[["m1", "when"]])]],
        ["req", [dict(h=0, shape="star")]],
        ["def", "is-not"],
    ]
    n = 0
    for pm in (None, False):
        for po in (None, False, True):
            for pi in (None, False, True):
                for ii, inner in enumerate(M.REAL):
                    for oi, outer in enumerate(("defn", "class")):
                        n += 1
                        if not full and (n + ii) % 2 != oi:
                            continue
                        b = binders[n % len(binders)]
                        ops = [b]
                        if pm is not None:
                            ops += [["pragma", pm], b]
                        ops.append(["open", outer])
                        ops.append(b)
                        if po is not None:
                            ops += [["pragma", po], b]
                        ops.append(["open", inner])
                        ops.append(b)
                        if pi is not None:
                            ops += [["pragma", pi], b]
                        ops += [["close"], b, ["close"], b, ["call", ["when", "is-not"]]]
                        yield dict(helpers=[HELPER_CONFIGS[0], HELPER_CONFIGS[3]], ops=json.loads(json.dumps(ops))), "grid:pragma"


def history_strategy(max_ops):
    from hypothesis import strategies as st

    pool = st.sampled_from(["m1", "m1", "m2", "_u", "m-x", "when", "is-not", "x"])
    helper = st.builds(
        lambda ms, exp, sub, via, quiet: dict(macros=ms, export=([m for m in ms if m in sub] if exp else None), via=via, quiet=quiet),
        st.lists(st.sampled_from(M.BASE + ["m1", "_u"]), min_size=0, max_size=6, unique=True),
        st.booleans(), st.sets(st.sampled_from(M.BASE)), st.sampled_from(["setv", "setv", "export"]), st.sampled_from([False, False, False, True]))
    dotted = [p + "." + n for p in ("$0", "$1", "P", "D", "p-q") for n in ("m1", "_u", "m-x", "when", "m2")]
    callname = st.sampled_from(M.BASE + ["m_x", "x", "y", "a-b", "is_not"] + dotted)
    callnames = st.one_of(st.none(), st.none(), st.lists(callname, min_size=1, max_size=4, unique=True))
    alias = st.one_of(st.none(), st.none(), st.sampled_from(["x", "y", "a-b", "when", "m1", "is-not"]))

    @st.composite
    def entry(draw, helpers):
        h = draw(st.integers(0, 1))
        shape = draw(st.sampled_from(["bare", "bare", "as", "as", "names", "names", "star", "star", "none"]))
        e = dict(h=h, shape=shape, kw=draw(st.sampled_from([False, False, True])),
                 readers=draw(st.sampled_from([None, None, None, None, "star", "list"])))
        if shape == "none" and e["readers"] is None:
            e["readers"] = "list"
        if shape == "as":
            e["prefix"] = draw(st.sampled_from(["P", "P", "D", "p-q"]))
        if shape == "names":
            ms = helpers[h]["macros"]
            if ms:
                e["names"] = [[n, draw(alias)] for n in draw(st.lists(st.sampled_from(ms), min_size=1, max_size=3))]
            else:
                e["names"] = []
        return e

    @st.composite
    def history(draw):
        helpers = [draw(helper), draw(helper)]
        n = draw(st.integers(3, max_ops))
        ops = []
        depth = 0
        kinds = ["def"] * 6 + ["req"] * 6 + ["call"] * 4 + ["open"] * 5 + ["close"] * 4 + ["pragma"] * 2 + ["eval"] * 3 + ["snap"]
        for _ in range(n):
            k = draw(st.sampled_from(kinds))
            if k == "close" and depth == 0:
                k = "def"
            if k == "open" and depth >= 4:
                k = "close"
            if k == "def":
                ops.append(["def", draw(pool)])
            elif k == "req":
                ops.append(["req", [draw(entry(helpers)) for _ in range(draw(st.sampled_from([1, 1, 1, 2])))]])
            elif k == "call":
                ops.append(["call", draw(callnames)])
            elif k == "open":
                ops.append(["open", draw(st.sampled_from(M.REAL + ["defn", "class", "fn"] + M.PLAIN))])
                depth += 1
            elif k == "close":
                ops.append(["close"])
                depth -= 1
                if draw(st.booleans()):
                    ops.append(["call", draw(callnames)])
            elif k == "pragma":
                ops.append(["pragma", draw(st.sampled_from([False, False, True]))])
            elif k == "eval":
                mode = draw(st.sampled_from(M.MODES))
                keys = draw(st.lists(callname, min_size=1, max_size=3, unique=True)) if mode in ("dict", "dict+inner") else []
                names = draw(callnames)
                if mode == "dict+inner" and names and draw(st.booleans()):
                    keys = list(names)[:3]  # the names called are in macros= as well: it must outrank the inner local macro
                ops.append(["eval", names, mode, keys])
            else:
                ops.append(["snap"])
        while depth:
            ops.append(["close"])
            depth -= 1
        ops.append(["call", None])  # "...followed by calls of each name"
        return dict(helpers=helpers, ops=ops)

    return history()


def _one(ctx, case, origin):
    plan = M.build(case)
    names = ["HELPER0", "HELPER1"]
    src = M.render_module(plan, names)
    sample = ";; HELPER0\n%s;; HELPER1\n%s;; module under test\n%s" % (M.render_helper(0, plan["helpers"][0]), M.render_helper(1, plan["helpers"][1]), src)
    ctx.case(key=sample, nontrivial=plan["stats"]["nontrivial"], cls=[origin] + sorted(plan["classes"]), sample=sample[:3000])
    ctx.count("records compared", len(plan["expect"]))
    obs = M.execute(plan)
    seen = set()
    for i, (b, d) in enumerate(M.compare(plan, obs)):
        if b in seen:
            continue
        seen.add(b)
        c = dict(case)
        if i:
            c["focus"] = b
        ctx.fail(c, b, _detail(plan, obs, d, [(b, d)]))


def shard(ctx):
    """Each shard does its exploring in a fresh interpreter. The runner forks its shards from a process that has already
    imported Hy and replayed the corpus; a forked child that then compiles and imports three modules per case spends most of
    its time in page faults once several such children run side by side (measured here: 0.15 s per case in a fresh process,
    0.8-3 s in 8-16 forked ones). The child runs _explore on an identical Ctx and hands its result back through a file."""
    import os
    import pickle
    import subprocess
    import sys
    import tempfile
    import time

    if os.environ.get("VF_C35_INPROCESS") == "1":
        return _explore(ctx)
    os.makedirs(M.WORKROOT, exist_ok=True)
    fd, path = tempfile.mkstemp(prefix="shard-%d-" % ctx.k, suffix=".pickle", dir=M.WORKROOT)
    os.close(fd)
    try:
        left = max(1.0, ctx.deadline - time.time())
        code = "import sys; from vf.props import c35; c35._worker(sys.argv[1:])"
        p = subprocess.run([sys.executable, "-c", code, ctx.tier, str(ctx.seed), str(ctx.k), str(ctx.n), repr(left), path],
                           stdout=subprocess.PIPE, stderr=subprocess.PIPE, text=True)
        if p.returncode != 0:
            raise RuntimeError("C35 shard %d worker failed (exit %s):\n%s" % (ctx.k, p.returncode, p.stderr[-3000:]))
        with open(path, "rb") as f:
            r = pickle.load(f)
    finally:
        try:
            os.remove(path)
        except OSError:
            pass
    ctx.evaluations += r["evaluations"]
    ctx.nontrivial |= r["nontrivial"]
    ctx.bulk_nontrivial += r["bulk_nontrivial"]
    for c, v in r["hist"].items():
        ctx.hist[c] = ctx.hist.get(c, 0) + v
    for c, v in r["samples"].items():
        lst = ctx.samples.setdefault(c, [])
        lst.extend(v[: max(0, 2 - len(lst))])
    if r["largest"] and (ctx.largest is None or r["largest"][0] > ctx.largest[0]):
        ctx.largest = r["largest"]
    for b, lst in r["failures"].items():
        for size, case, detail in lst:
            ctx.fail(case, b, detail)
    ctx.timed_out = ctx.timed_out or r["timed_out"]
    ctx.excluded_known += r["excluded_known"]
    ctx.notes.extend(r["notes"])


def _worker(argv):
    import pickle

    from vf import core

    tier, seed, k, n, budget, path = argv
    ctx = core.Ctx(PROP, tier, int(seed), int(k), int(n), float(budget))
    _explore(ctx)
    with open(path, "wb") as f:
        pickle.dump(ctx.result(), f)


def _explore(ctx):
    """The three enumerated grids (spread over the shards) and the random histories are interleaved, so that a run cut short
    by its time budget has still seen every generator."""
    full = not ctx.quick

    def grid_iter(gen):
        i = 0
        for case, origin in gen(full=full):
            i += 1
            if i % ctx.n == ctx.k:
                yield case, origin

    def random_iter():
        # histories are drawn inside Hypothesis and executed afterwards: hy.macros.require and hy.eval walk the whole call
        # stack with inspect.stack(), which is very slow under the engine's deep stack
        total = ctx.per_shard(900, 20000)
        rnd = 0
        while total > 0:
            rnd += 1
            m = min(60, total)
            total -= m
            cases = []
            ctx.hyp(history_strategy(24 if ctx.quick else 36), cases.append, m, "histories-%d" % rnd)
            for case in cases:
                yield case, "random"

    def session_iter():
        total = ctx.per_shard(400, 8000)
        rnd = 0
        while total > 0:
            rnd += 1
            m = min(60, total)
            total -= m
            cases = []
            ctx.hyp(session_strategy(8 if ctx.quick else 14), cases.append, m, "sessions-%d" % rnd)
            for case in cases:
                yield case, "random:session"

    sources = [[grid_iter(require_grid), 1], [grid_iter(pragma_grid), 1], [grid_iter(precedence_grid), 1], [random_iter(), 4],
               [grid_iter(session_grid), 1], [session_iter(), 2]]
    while sources:
        for src in list(sources):
            for _ in range(src[1]):
                if ctx.out_of_time():
                    return
                try:
                    case, origin = next(src[0])
                except StopIteration:
                    sources.remove(src)
                    break
                (_session_one if "session" in case else _one)(ctx, case, origin)
