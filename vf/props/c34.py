"""C34 A Hy name means the same Python identifier in every construct.

Case = (scenario, s, t).  A scenario (vf/c34_scen.py) is a writer construct that binds something
under the Hy name s combined with a reader construct that looks the Hy name t up in the same
namespace; t == s gives the single-name form of the property, t != s the pair form.
"""
import unicodedata

from vf import c34_scen as S

PROP = "C34"
RULE = (
    "case = (scenario, s, t): s, t are reader-valid Hy symbols built by construction from a weighted alphabet (ASCII letters, "
    "digits, hyphens, ASCII and NFKC underscores, symbol punctuation !?*+<>=/&%$@^|:#\\, NFKC-unstable letters, combining and "
    "astral characters, non-ASCII spaces, Python keywords) with number-like texts repaired by an appended '!' or '?'; t is "
    "derived from s by a drawn relation (identical, '-'<->'_' at one place, leading '-' vs '_', an NFKC-equivalent variant of "
    "one character, a case flip, the already mangled form hy.mangle(s), an NFKC-underscore variant of a leading underscore) or "
    "drawn independently. scenario = writer>reader over four namespaces: G variables (setv, setx, defn, defclass, import :as, "
    "from-import :as, for, with, except, match capture, let, lfor, global, class-body variable, six parameter kinds, plus a "
    "Python-side binding; read by symbol, call, (:t globals), del), A attributes (setv o.s, setv (. o s), class-body setv/defn, "
    "Python setattr; read by o.t, (. o t), o.t.tag, (.t o), (. o (t)), (:t (vars o)), del o.t), K keyword arguments "
    "((f :s v), method and dot-form calls, mixed with positionals; received by **kwargs, by a parameter t, by (:t dict)), M macros "
    "(defmacro global and local, require :as, require by name, require with prefix; used by call, get-macro, local-macros), and "
    "global/nonlocal declarations with s assigned through t. Oracle: the program (compiled by hy_compile and run in a fresh "
    "module) shows the written object through the reader iff hy.mangle(s) == hy.mangle(t) (otherwise a sentinel the harness "
    "placed from Python under hy.mangle(t)), and the raw namespace (module globals, object __dict__, received kwargs, "
    "_hy_macros keys, inspect.signature parameter names, __name__ of the def/class/macro) changed under exactly hy.mangle(s). "
    "Any exception from reading/compiling/running an in-domain program is a failure. Non-trivial = hy.mangle changes s or t; "
    "distinct by (scenario, s, t)"
)
ASSUMPTIONS = [
    "hy.mangle is the reference for 'the Python identifier of s' (the property defines it so; C32 checks hy.mangle itself)",
    "out of domain, counted as skipped: texts that do not read as one symbol; names mangling to None/True/False, to 'hy' or '_hy_*' "
    "(compiler-reserved, C12), to Python dunder names; core macro names in head position; '*' and '/' in lambda lists; '_' as match "
    "pattern or with-variable (documented markers); __private names inside class bodies (Python's own class-private renaming); names "
    "with the hyx_ prefix or the NFKC-after-escaping shape of the two recorded C33 findings (kept out by construction, remainder counted)",
    "a token glued from a name and fixed text (:s, o.s, .s) must read back as that construct; otherwise the case is skipped and counted",
]
LEVEL = "exploration"
NSHARDS = 16
BUDGET_QUICK = 300
BUDGET_THOROUGH = 1500

FORBIDDEN = set("()[]{};\"'`~. \t\n\r\f\v")

# names every scenario is run on (spread over the shards); chosen so that each way mangling can change a name occurs
CURATED = [
    ("a", "a"), ("a", "b"), ("foo-bar", "foo_bar"), ("foo-bar", "foo-bar"), ("-foo", "_foo"), ("-foo", "-foo"),
    ("--x", "-_x"), ("_-x", "__x"), ("a-", "a_"), ("__a", "＿_a"), ("_a", "_a"), ("a?", "a?"), ("is-a?", "is_a?"),
    ("*x*", "*x*"), ("<=>", "<=>"), ("a->b", "a_>b"), ("1+x", "1+x"), ("3fiddy", "3fiddy"), ("$40", "$40"),
    ("🦑", "hyx_XsquidX"), ("just✈wrong", "just✈wrong"), ("ﬁ", "fi"), ("ﬁx", "fix"), ("K", "K"), ("ſ", "s"), ("µ", "μ"),
    ("Å", "Å"), ("ǅ", "Dž"), ("a²", "a2"), ("𝔥𝔢𝔩𝔩𝔬", "hello"), ("é", "é"), ("A", "a"), ("Foo", "foo"),
    ("ａ", "a"), ("a！", "a!"), ("ａ－ｂ", "a-b"), ("ａ_ｂ", "a-b"), ("X", "X"), ("aXb", "aXb"), ("XaX", "hyx_XXXaXXX"),
    ("def", "def"), ("class", "class"), ("lambda", "lambda"), ("self", "self"), ("+", "+"), ("-", "-"), ("*", "*"), ("/", "/"),
    ("if", "if"), ("get", "get"), ("_", "_"), ("＿", "_"), ("__", "__"), ("a:b", "a:b"), ("a#", "a#"), ("a\\b", "a\\b"),
    ("a,b", "a,b"), ("a\xa0b", "a\xa0b"), ("a\u2003b", "a\u2003b"), ("a\x00b", "a\x00b"), ("中", "中"), ("e5", "e5"), ("_5", "_5"), ("j", "J"), ("-x", "-X"),
]


def name_class(s):
    from hy.reader.mangling import mangle

    m = mangle(s)
    if m == s:
        return "name:unchanged"
    if m.lstrip("_").startswith("hyx_"):
        return "name:escaped"
    if unicodedata.normalize("NFKC", s) != s:
        return "name:nfkc-normalised"
    return "name:hyphen-converted"


def known_c33_shape(n, other):
    """The name has the shape of one of the two recorded C33 findings (reserved prefix hyx_ reached without escaping /
    NFKC applied after escaping). An already mangled name is admitted only as the mangled form of its partner."""
    from hy.reader.mangling import mangle
    from vf.props import c33

    if not c33.in_domain(n):
        return not (c33.in_domain(other) and c33.known_shape(other) is None and n == mangle(other))
    return c33.known_shape(n) is not None


_VARIANTS = None


def nfkc_variants():
    """char -> characters that NFKC-normalise to it (deterministic table)."""
    global _VARIANTS
    if _VARIANTS is None:
        tab = {}
        ranges = [(0xFF01, 0xFF5E), (0x1D400, 0x1D7FF), (0x2460, 0x24E9), (0xFB00, 0xFB06), (0x2100, 0x2138), (0x00AA, 0x00BA)]
        for lo, hi in ranges:
            for cp in range(lo, hi + 1):
                c = chr(cp)
                n = unicodedata.normalize("NFKC", c)
                if n != c and len(n) == 1 and n not in FORBIDDEN:
                    tab.setdefault(n, []).append(c)
        _VARIANTS = tab
    return _VARIANTS


def repair(name, suffix):
    """Make a drawn text a symbol by construction: it is dot-free and delimiter-free already;
    a number-like text gets a suffix no number can carry."""
    if not name:
        name = "a"
    if name[0] in ":#":
        name = "a" + name
    if not S.reads_as_symbol(name):
        name = name + suffix
    return name


RELATIONS = ["identical", "sep-swap", "lead-swap", "nfkc-variant", "case-flip", "mangled-form", "underscore-variant",
             "independent"]
REL_WEIGHT = {"identical": 3, "sep-swap": 2, "nfkc-variant": 2}  # others 1


def strategies(rel):
    """Strategy for a pair (s, t) of symbols standing in the given relation."""
    from hypothesis import strategies as st

    ascii_id = st.sampled_from(list("abcxyzXHUDhu"))
    digits = st.sampled_from(list("0123456789"))
    punct = st.sampled_from(list("-!?*+<>=/&%$@^|:#\\,"))
    hyph = st.sampled_from(["-", "-", "_", "--", "__", "-_", "_-"])
    us = st.sampled_from(list("_\ufe33\ufe34\ufe4d\ufe4e\ufe4f\uff3f"))
    # letters, NFKC-unstable letters (compatibility forms, ligatures, signs), symbols, non-ASCII spaces, controls, full-width forms
    uni = st.sampled_from(list(
        "\u00e9\u00f1\u00df\u03bb\u0436\u4e2d\U0001d525\ufb01\u2163\u212b\u2126\u00b5\u00aa\u00ba\u00b2\u00bc\u01c5\u338f\u2116"
        "\u200d\U0001f991\u2666\u2660\u2698\u00a0\u2003\x00\x7f\u212a\u017f\uff21\uff41\uff11\uff0d\uff01\uff3f"))
    # combining marks only directly after a base letter (a mark right after an escaped character is the recorded C33 shape)
    comb = st.sampled_from(["e\u0301", "a\u030c", "n\u0303", "o\u0338", "u\u0307", "\u304b\u3099", "A\u030a"])
    anyc = st.characters(exclude_categories=("Cs",), exclude_characters="".join(sorted(FORBIDDEN)))
    frag = st.sampled_from(["X", "XX", "XaX", "U1f600", "def", "class", "lambda", "self", "not?", "*e", "1+", "e5", "j", "0x",
                            "foo", "bar", "is", "a-b", "Xsquid"])
    piece = st.one_of(ascii_id, ascii_id, digits, punct, hyph, hyph, us, uni, uni, comb, anyc, frag)
    raw = st.lists(piece, min_size=1, max_size=6).map("".join)
    name = st.tuples(raw, st.sampled_from("!?")).map(lambda p: repair(p[0], p[1]))

    @st.composite
    def pair(draw):
        s = draw(name)
        t = s
        if rel == "sep-swap":
            idx = [i for i, c in enumerate(s) if c in "-_"]
            if idx:
                i = draw(st.sampled_from(idx))
                t = s[:i] + ("_" if s[i] == "-" else "-") + s[i + 1:]
            else:
                tail = draw(name)
                s, t = s + "-" + tail, s + "_" + tail
        elif rel == "lead-swap":
            body = s.lstrip("-_") or "a"
            k = draw(st.integers(0, 2))
            s, t = "_" * k + "-" + body, "_" * k + "_" + body
        elif rel == "nfkc-variant":
            tab = nfkc_variants()
            idx = [i for i, c in enumerate(s) if c in tab]
            if idx:
                i = draw(st.sampled_from(idx))
                t = s[:i] + draw(st.sampled_from(tab[s[i]])) + s[i + 1:]
            else:
                c = draw(st.sampled_from(sorted(tab)))
                v = draw(st.sampled_from(tab[c]))
                s, t = s + c, s + v
        elif rel == "case-flip":
            idx = [i for i, c in enumerate(s) if c.swapcase() != c and len(c.swapcase()) == 1]
            if idx:
                i = draw(st.sampled_from(idx))
                t = s[:i] + s[i].swapcase() + s[i + 1:]
            else:
                s, t = s + "a", s + "A"
        elif rel == "mangled-form":
            from hy.reader.mangling import mangle

            t = mangle(s)
        elif rel == "underscore-variant":
            v = draw(st.sampled_from(list("\ufe33\ufe34\ufe4d\ufe4e\ufe4f\uff3f")))
            k = draw(st.integers(1, 2))
            body = s.lstrip("_") or "a"
            s, t = "_" * k + body, v + "_" * (k - 1) + body
        elif rel == "independent":
            t = draw(name)
        sfx = draw(st.sampled_from("!?"))
        s, t = repair(s, sfx), repair(t, sfx)
        if draw(st.booleans()):
            s, t = t, s
        return dict(s=s, t=t, rel=rel)

    return pair()


def in_domain(scen, s, t):
    return S.applicable(scen, s, t) is None and not known_c33_shape(s, t) and not known_c33_shape(t, s)


PY_WRITER = {"G": "py-global", "A": "py-setattr", "M": "defmacro"}
BASE_READER = {"G": "symbol", "A": "dot-form", "M": "call"}


def blame(scen, s, t, kind):
    """Root-cause proxy for a failing writer>reader case: re-run the reader behind a reference writer (a binding made from
    Python, for macros a plain defmacro) and the writer in front of the plainest reader; the side that fails alone is named."""
    if ">" not in scen or scen in S.KSCEN or scen in S.GSPECIAL:
        return scen
    ns, rest = scen.split(":", 1)
    wid, rid = rest.split(">")
    if ns in "GA" and wid == PY_WRITER[ns]:
        return "reader %s:%s" % (ns, rid)  # the binding was made from Python: only the reader is Hy code
    probe_r = "%s:%s>%s" % (ns, PY_WRITER[ns], rid)
    if wid != PY_WRITER[ns] and probe_r in S.SCENARIOS and in_domain(probe_r, s, t):
        r = S.run_case(probe_r, s, t)
        if r is not None and r[0] == kind:
            return "reader %s:%s" % (ns, rid)
    if rid == BASE_READER[ns]:
        return "writer %s:%s" % (ns, wid)  # the plainest reader, and (where it could be tried) the reader alone is fine
    probe_w = "%s:%s>%s" % (ns, wid, BASE_READER[ns])
    if probe_w in S.SCENARIOS and in_domain(probe_w, s, t):
        r = S.run_case(probe_w, s, t)
        if r is not None and r[0] == kind:
            return "writer %s:%s" % (ns, wid)
    return scen


def check_case(case):
    scen, s, t = case["c"], case["s"], case.get("t", case["s"])
    if scen not in S.SCENARIOS or not isinstance(s, str) or not isinstance(t, str) or not s or not t:
        return None
    if not in_domain(scen, s, t):
        return None
    r = S.run_case(scen, s, t)
    if r is None:
        return None
    kind, detail = r
    from hy.reader.mangling import mangle

    detail["relation"] = "single name" if s == t else ("pair, same identifier" if mangle(s) == mangle(t) else "pair, distinct identifiers")
    return ("%s|%s" % (blame(scen, s, t, kind), kind), detail)


def _one(ctx, case, origin):
    from hy.reader.mangling import mangle

    scen, s, t = case["c"], case["s"], case["t"]
    why = S.applicable(scen, s, t)
    if why is None and (known_c33_shape(s, t) or known_c33_shape(t, s)):
        why = "c33-known-shape"
        ctx.excluded_known += 1
    if why is not None:
        ctx.count("skipped:" + why)
        return
    ms, mt = mangle(s), mangle(t)
    rel = "single-name" if s == t else ("pair:same-identifier" if ms == mt else "pair:distinct-identifiers")
    src, _ = S.build(scen, s, t)
    cls = ["scenario:" + scen, "namespace:" + scen[0], rel, name_class(s), origin]
    if case.get("rel"):
        cls.append("relation:" + case["rel"])
    if s[0] == "-" or t[0] == "-":
        cls.append("lead:hyphen")
    if unicodedata.normalize("NFKC", s[0]) == "_" or unicodedata.normalize("NFKC", t[0]) == "_":
        cls.append("lead:underscore")
    ctx.case(key=(scen, s, t), nontrivial=(ms != s or mt != t), cls=cls, sample=src)
    r = check_case(dict(c=scen, s=s, t=t))
    if r is not None:
        ctx.fail(dict(c=scen, s=s, t=t), r[0], r[1])


PER_PAIR = 6  # scenarios run on each generated pair


WILD = "G:match-wildcard>body"  # defined only for names whose identifier is `_`; run on every such name instead of round-robin


def shard(ctx):
    from hy.reader.mangling import mangle

    scenarios = [x for x in S.SCENARIOS if x != WILD]
    # 1. every scenario on every curated name/pair (enumerated, spread over the shards)
    i = 0
    for scen in S.SCENARIOS:
        for s, t in CURATED:
            i += 1
            if i % ctx.n != ctx.k:
                continue
            if ctx.out_of_time():
                return
            _one(ctx, dict(c=scen, s=s, t=t), "origin:curated")
    # 2. random names and pairs, one Hypothesis run per relation. Each pair is run on PER_PAIR scenarios taken round-robin
    #    from the table (an enumeration: every scenario gets the same share, whatever the engine's sampling bias).
    #    Pairs are drawn first and executed afterwards, outside Hypothesis' deep call stack (hy.macros.require walks the
    #    whole stack with inspect.stack(), which is very slow under the engine).
    total_pairs = ctx.per_shard(6000, 300000)
    wsum = sum(REL_WEIGHT.get(r, 1) for r in RELATIONS)
    cursor = (ctx.k * 37) % len(scenarios)
    remaining = {rel: max(1, total_pairs * REL_WEIGHT.get(rel, 1) // wsum) for rel in RELATIONS}
    rnd = 0
    while any(remaining.values()) and not ctx.out_of_time():
        rnd += 1
        for rel in RELATIONS:  # relations interleaved, so that a time cut leaves a balanced sample
            m = min(500, remaining[rel])
            if m == 0 or ctx.out_of_time():
                continue
            remaining[rel] -= m
            pairs = []
            ctx.hyp(strategies(rel), pairs.append, m, "pairs-%s-%d" % (rel, rnd))
            for p in pairs:
                for _ in range(PER_PAIR):
                    if ctx.out_of_time():
                        return
                    scen = scenarios[cursor % len(scenarios)]
                    cursor += 1
                    _one(ctx, dict(c=scen, s=p["s"], t=p["t"], rel=p["rel"]), "origin:random")
                if S.reads_as_symbol(p["s"]) and mangle(p["s"]) == "_":
                    _one(ctx, dict(c=WILD, s=p["s"], t=p["t"], rel=p["rel"]), "origin:random")


def shrink(case, same, budget):
    """Shorten the two names (keeping them equal when they were), character by character."""
    calls = 0
    best = dict(case)
    best.pop("rel", None)
    improved = True
    while improved and calls < budget:
        improved = False
        single = best["s"] == best["t"]
        for key in ("s", "t"):
            txt = best[key]
            for i in range(len(txt)):
                cand = dict(best)
                cand[key] = txt[:i] + txt[i + 1:]
                if single:
                    cand["s"] = cand["t"] = cand[key]
                if not cand[key]:
                    continue
                calls += 1
                if calls > budget:
                    break
                try:
                    ok = same(cand)
                except Exception:
                    ok = False
                if ok:
                    best = cand
                    improved = True
                    break
            if improved or calls > budget:
                break
    return best


MATCHERS = {}
