"""C32 hy.mangle always yields a canonical Python identifier.

Exhaustive: every code point (no surrogates, no '.') in positional contexts;
plus Hypothesis-generated random names and dotted names.
"""
import sys
import unicodedata

PROP = "C32"
RULE = (
    "every Unicode code point except surrogates and '.' placed in the contexts "
    "c, ac, ca, _c, acb, -c, c- (thorough adds c1, 1c, Xc, cX, __c, ＿c, c_, a-c) "
    "(enumerated, all distinct), plus random names over a weighted alphabet "
    "(hyphens, ASCII and NFKC-underscores, digits first, keywords, hyx_/X..X fragments, "
    "combining and astral characters) and dotted names built from such parts; "
    "non-trivial = mangle(s) != s (the name needed escaping, hyphen conversion or normalisation)"
)
ASSUMPTIONS = [
    "CPython's str.isidentifier and unicodedata.normalize('NFKC') define 'valid identifier' and 'NFKC normal form'",
    "leading underscores of the input are counted as leading characters whose NFKC form is '_'",
]
LEVEL = "exploration"


def EXHAUSTIVE(tier):
    return False  # the code-point sweep is exhaustive, the random-name part is not


CONTEXTS_QUICK = ["{c}", "a{c}", "{c}a", "_{c}", "a{c}b", "-{c}", "{c}-"]
CONTEXTS_MORE = ["{c}1", "1{c}", "X{c}", "{c}X", "__{c}", "＿{c}", "{c}_", "a-{c}", "{c}{c}"]

_NFKC_US = None


def nfkc_underscores():
    global _NFKC_US
    if _NFKC_US is None:
        _NFKC_US = frozenset(
            chr(i) for i in range(sys.maxunicode + 1)
            if not 0xD800 <= i <= 0xDFFF and unicodedata.normalize("NFKC", chr(i)) == "_"
        )
    return _NFKC_US


def lead_us(s, us):
    n = 0
    for ch in s:
        if ch in us:
            n += 1
        else:
            break
    return n


def check_plain(s):
    """s: non-empty, no dots. Returns None or (bucket, detail)."""
    from hy.reader.mangling import mangle

    us = nfkc_underscores()
    try:
        m = mangle(s)
    except Exception as e:  # noqa
        return ("raised:" + type(e).__name__, dict(s=s, error=repr(e)))
    if not isinstance(m, str) or not m.isidentifier():
        return ("not-identifier", dict(s=s, mangled=m))
    if unicodedata.normalize("NFKC", m) != m:
        return ("not-nfkc", dict(s=s, mangled=m))
    if lead_us(s, us) != lead_us(m, "_"):
        return ("leading-underscores", dict(s=s, mangled=m))
    if s.isidentifier() and unicodedata.normalize("NFKC", s) == s and m != s:
        return ("normal-identifier-changed", dict(s=s, mangled=m))
    try:
        m2 = mangle(m)
    except Exception as e:  # noqa
        return ("idempotence-raised:" + type(e).__name__, dict(s=s, mangled=m))
    if m2 != m:
        return ("not-idempotent", dict(s=s, mangled=m, again=m2))
    return None


def check_dotted(parts):
    """parts: list of strings without dots, not all empty."""
    from hy.reader.mangling import mangle

    s = ".".join(parts)
    try:
        m = mangle(s)
    except Exception as e:  # noqa
        return ("dotted-raised:" + type(e).__name__, dict(s=s, error=repr(e)))
    try:
        want = ".".join(mangle(p) if p else "" for p in parts)
    except Exception:
        return None  # a part alone is rejected; covered by check_plain
    if m != want:
        return ("dotted-not-per-part", dict(s=s, mangled=m, expected=want))
    return None


def check_case(case):
    if "parts" in case:
        return check_dotted(case["parts"])
    return check_plain(case["s"])


# -- generators -----------------------------------------------------------------


def name_strategy():
    from hypothesis import strategies as st

    ascii_id = st.sampled_from(list("abcxyzXHUhu_"))
    digits = st.sampled_from(list("0123456789"))
    punct = st.sampled_from(list("-!?*+<>=/&%$@^~|:#'\"\\,;()[]{} \t\n"))
    us = st.sampled_from(list("_︳︴﹍﹎﹏＿"))
    uni = st.sampled_from(list("éñßλж中𝔥ﬁⅨÅΩµªº²¼ǅ̸゙̇́̌‍🦑♦♠⚘  \x00\x7fKſ"))
    anyc = st.characters(exclude_categories=("Cs",), exclude_characters=".")
    frag = st.sampled_from(
        ["hyx_", "_hyx_", "hyx", "XhyphenHminusX", "XsquidX", "XU1f600X", "X", "XX", "def", "class",
         "None", "True", "if", "--", "__", "-_", "_-", "Xfull_stopX", "is-not", "not?", "*e", "1+", "+1"]
    )
    piece = st.one_of(ascii_id, ascii_id, digits, punct, punct, us, uni, uni, anyc, frag)
    return st.lists(piece, min_size=1, max_size=8).map("".join).filter(lambda s: s and "." not in s)


def shard(ctx):
    from hy.reader.mangling import mangle

    contexts = CONTEXTS_QUICK + ([] if ctx.quick else CONTEXTS_MORE)
    # exhaustive code-point sweep, sharded by residue
    n_nt = 0
    n_ev = 0
    for cp in range(ctx.k, sys.maxunicode + 1, ctx.n):
        if 0xD800 <= cp <= 0xDFFF or cp == 0x2E:
            continue
        c = chr(cp)
        for t in contexts:
            s = t.replace("{c}", c)
            n_ev += 1
            r = check_plain(s)
            if r is not None:
                ctx.fail(dict(s=s), r[0], r[1])
            else:
                try:
                    if mangle(s) != s:
                        n_nt += 1
                except Exception:
                    pass
    ctx.bulk(n_ev, n_nt, cls="codepoint-sweep")
    ctx.samples.setdefault("codepoint-sweep", []).append(
        "contexts=%r over code points ≡ %d mod %d" % (contexts, ctx.k, ctx.n))

    from hypothesis import strategies as st

    names = name_strategy()

    def one(s):
        r = check_plain(s)
        try:
            m = mangle(s)
        except Exception:
            m = None
        nt = m is not None and m != s
        cls = "random:" + ("escaped" if m and "hyx_" in m and "hyx_" not in s else "normalised" if nt else "unchanged")
        ctx.case(key=s, nontrivial=nt, cls=cls, sample=repr(s) + " -> " + repr(m))
        if r is not None:
            ctx.fail(dict(s=s), r[0], r[1])

    ctx.hyp(names, one, ctx.per_shard(20000, 400000), "names")

    dotted = st.lists(st.one_of(names, st.just(""), st.just("a")), min_size=2, max_size=4).filter(
        lambda ps: any(ps))

    def two(parts):
        r = check_dotted(parts)
        ctx.case(key=".".join(parts), nontrivial=any(p and not p.isidentifier() for p in parts),
                 cls="dotted", sample=repr(".".join(parts)))
        if r is not None:
            ctx.fail(dict(parts=parts), r[0], r[1])
        for p in parts:
            if p:
                r = check_plain(p)
                if r is not None:
                    ctx.fail(dict(s=p), r[0], r[1])

    ctx.hyp(dotted, two, ctx.per_shard(4000, 80000), "dotted")


MATCHERS = {}
