"""C06 let bindings are lexically scoped."""
from vf import scopes as S

PROP = "C06"
PROFILE = "let"
RULE = (
    "Engine C programs (vf/scopes.py) over the names x y z (pre-assigned at module level) and w (never a module variable): nested "
    "let forms with 1..3 sequential bindings (re-binding a name inside one list, binding closures), fn/defn closures up to depth 4 "
    "with parameters and locals that shadow let names and optional nonlocal/global declarations, setv and for to let-bound names, "
    "lfor with iteration and :setv variables that shadow let names (with and without :do, i.e. both compilation strategies), calls "
    "placed after later assignments, at module level and inside a function. Every read is (REC id name). Oracle: a reference "
    "interpreter that resolves each occurrence to a binder by the documented lexical rules (docs/api.rst let/lfor/for/nonlocal/"
    "global + Python's function scoping) over explicit frames: the (id, value) log must be identical, the module-level values of "
    "x y z afterwards must be identical, and w must not exist at module level unless the reference says so (no let binding visible "
    "outside its body). Non-trivial = the program has a shadowing pair (let over let, parameter/comprehension variable over let, "
    "re-binding in one list) or a setv to a let-bound name, and at least one closure; distinct by Hy text"
)
ASSUMPTIONS = [
    "vf/scopes.py's resolver and interpreter are the reference (transcribed from docs/api.rst and Python's scoping rules)",
    "programs whose meaning the docs leave open are not generated: assignments that would make a name function-local after it was read there, mid-body nonlocal, nonlocal for a name an enclosing function declares global, functions defined inside comprehensions",
]
NT = {"let-shadows-let", "parameter-shadows-let", "comprehension-variable-shadows-let", "let-rebinds-in-one-list", "setv-to-let-bound-name", "for-variable-is-let-bound"}


def check_case(case):
    try:
        r = S.compare(case)
    except (KeyError, IndexError, TypeError, ValueError):
        return None  # a shrunk candidate that is no longer a program
    if r is None or r[0].startswith("skip"):
        return None
    return r


def nontrivial(feats):
    return bool(feats & NT) and any(f.startswith("function-depth") or f == "closure-in-let-binding" for f in feats)


def shard(ctx):
    strat = S.program_strategy(PROFILE)

    def one(case):
        r = S.compare(case)
        feats = S.features(case)
        src = S.render(case)
        if r is not None and r[0].startswith("skip"):
            ctx.count(r[0])
            return
        ref = S.reference(case)
        cls = sorted(feats) + ["scope:" + case["scope"], "expected:" + ("rejected-at-compile-time" if ref[0] == "reject" else "runs")]
        ctx.case(key=src, nontrivial=nontrivial(feats), cls=cls, sample=src.replace("\n", " ")[:400])
        if r is not None:
            ctx.fail(case, r[0], r[1])

    ctx.hyp(strat, one, ctx.per_shard(6000, 250000), "programs")


MATCHERS = {}
