"""C02 and/or short-circuit and return Python's operand value."""
import itertools

from vf import progs as P

PROP = "C02"
RULE = (
    "(and ...)/(or ...) with 0..8 operands; each operand is plain (literal or variable), an effectful expression (E id v), or "
    "statement-producing (do with effects, do with setv, nested and/or of either polarity with statement operands, if with a "
    "statement branch, try/finally); operand values from falsy {0, \"\", None, False} and truthy {1, \"a\", True, 7} under a "
    "truthiness assignment; the form is used as a value, as a setv right-hand side (also one that reads the target), as a call "
    "argument, as an if test, nested in another and/or, at module level and in a function. Quick: Hypothesis-sampled; thorough: "
    "all shape vectors over {plain, effectful, statement, nullary same operator, nested same operator ending in its nullary call} x all truthiness assignments for arity <= 4 (enumerated) plus sampled "
    "arities 5..8. Operands may also be the nullary call of the same or the other operator and a nested call of the same operator "
    "(ending in a plain value or in the nullary call). Also the function forms (and #* xs) and hy.pyops and/or on value lists. Oracle: Python's and/or chain in the "
    "reference interpreter; the effect log must be exactly the operands up to the deciding one, in order. "
    "Non-trivial = some statement-producing operand is not first; distinct by source"
)
ASSUMPTIONS = ["reference interpreter vf/progs.py (and/or clauses are Python's own short-circuit operators)"]

FALSY = [0, "", None, False]
TRUTHY = [1, "a", True, 7]
CONTEXTS = ["value", "setv", "setv-reads-target", "arg", "if-test", "nested-and", "nested-or", "do-last"]
STMT_VARIANTS = ["do-eff", "do-setv", "nested-and", "nested-or", "if-stmt", "try-finally", "when"]


def build(case):
    """case: dict(op, shapes=[...], truth=[...], vsel=[...], variants=[...], ctx, mode) -> prog"""
    ids = itertools.count(1)
    ops = []
    pre = []
    for i, (shape, t) in enumerate(zip(case["shapes"], case["truth"])):
        v = (TRUTHY if t else FALSY)[case["vsel"][i] % 4]
        if shape == "plain":
            ops.append(["lit", v])
        elif shape == "var":
            name = "x%d" % i
            pre.append(["setv", [[name, ["lit", v]]]])
            ops.append(["var", name])
        elif shape == "eff":
            ops.append(["eff", next(ids), v])
        elif shape == "nul-same":  # (and) is True, (or) is None, whatever the truth vector says
            ops.append([case["op"], []])
        elif shape == "nul-other":
            ops.append(["or" if case["op"] == "and" else "and", []])
        elif shape in ("nest-same", "nest-same-nul"):  # the same operator nested: (and a (and p v)) / (and a (and p (and)))
            passing = ["lit", 7 if case["op"] == "and" else 0]
            ops.append([case["op"], [passing, ["lit", v] if shape == "nest-same" else [case["op"], []]]])
        else:
            var = case["variants"][i % len(case["variants"])] if case.get("variants") else "do-eff"
            e1, e2 = next(ids), next(ids)
            if var == "do-eff":
                ops.append(["do", [["eff", e1, None], ["eff", e2, v]]])
            elif var == "do-setv":
                ops.append(["do", [["setv", [["t%d" % i, ["eff", e1, v]]]], ["var", "t%d" % i]]])
            elif var == "nested-and":
                ops.append(["and", [["do", [["eff", e1, 1], ["lit", 1]]], ["eff", e2, v]]])
            elif var == "nested-or":
                ops.append(["or", [["do", [["eff", e1, 0], ["lit", 0]]], ["eff", e2, v]]])
            elif var == "if-stmt":
                ops.append(["if", ["eff", e1, 1], ["do", [["eff", e2, None], ["lit", v]]], ["lit", 5]])
            elif var == "try-finally":
                ops.append(["try", [["eff", e1, v]], [], None, [["eff", e2, None]]])
            else:
                ops.append(["do", [["when", ["eff", e1, 1], [["eff", e2, 2]]], ["lit", v]]])
    node = [case["op"], ops]
    ctx = case["ctx"]
    if ctx == "value":
        prog = [node]
    elif ctx == "setv":
        prog = [["setv", [["r", node]]], ["var", "r"]]
    elif ctx == "setv-reads-target":
        node = [case["op"], ops + [["var", "r"]]]
        prog = [["setv", [["r", ["lit", 10]]]], ["setv", [["r", node]]], ["var", "r"]]
    elif ctx == "arg":
        prog = [["call", ["fn", ["p", "q"], [["list", [["var", "p"], ["var", "q"], ["lit", 0]]]]], [["lit", 3], node]]]
    elif ctx == "if-test":
        prog = [["if", node, ["eff", 90, "then"], ["eff", 91, "else"]]]
    elif ctx == "nested-and":
        prog = [["and", [["eff", 92, 1], node, ["eff", 93, "last"]]]]
    elif ctx == "nested-or":
        prog = [["or", [["eff", 92, 0], node, ["eff", 93, "last"]]]]
    else:
        prog = [["do", [["eff", 94, 0], node]]]
    return pre + prog


def check_case(case):
    if case.get("kind") == "function":
        return check_function(case)
    prog = build(case)
    r = P.compare(prog, case.get("mode", "module"))
    if r is not None:
        return (r[0] + ":" + case["op"], r[1])
    return None


def check_function(case):
    """(and #* xs), (or #* xs), hy.pyops.and / hy.pyops.or over plain values."""
    import hy

    vals = [(TRUTHY if t else FALSY)[s % 4] for t, s in zip(case["truth"], case["vsel"])]
    op = case["op"]
    want = True if op == "and" else None
    for v in vals:
        want = v
        if (op == "and" and not v) or (op == "or" and v):
            break
    for src in ("(%s #* xs)" % op, "(do (import hy.pyops) ((. hy.pyops %s) #* xs))" % op, "(%s 1 #* xs)" % op if op == "and" else "(%s 0 #* xs)" % op):
        try:
            f = _FN.get(src)
            if f is None:
                f = _FN[src] = hy.eval(hy.read("(fn [xs] %s)" % src), {"hy": hy})
            got = f(list(vals))
        except Exception as e:  # noqa
            return ("function-form-raised:" + op, dict(source=src, xs=repr(vals), error=repr(e)[:200]))
        w = want
        if src.startswith("(%s 1" % op) or src.startswith("(%s 0" % op):
            w = want if vals else (1 if op == "and" else 0)
        if P.canon(got) != P.canon(w):
            return ("function-form-value:" + op, dict(source=src, xs=repr(vals), expected=P.canon(w), actual=P.canon(got)))
    return None


_FN = {}


def nontrivial(case):
    return any(s == "stmt" and i > 0 for i, s in enumerate(case.get("shapes", []))) or (case.get("kind") == "function" and len(case["truth"]) >= 2)


def run_one(ctx, case):
    if case.get("kind") == "function":
        key = ("f", case["op"], tuple(case["truth"]), tuple(case["vsel"]))
        sample = "(%s #* %r)" % (case["op"], [(TRUTHY if t else FALSY)[s % 4] for t, s in zip(case["truth"], case["vsel"])])
    else:
        sample = P.wrap_source(build(case), case.get("mode", "module"))
        key = sample
    ctx.case(key=key, nontrivial=nontrivial(case), cls=["arity:%d" % len(case["truth"]), "ctx:" + case.get("ctx", "function-form"), "op:" + case["op"]], sample=sample)
    r = check_case(case)
    if r is not None:
        ctx.fail(case, r[0], r[1])


def shard(ctx):
    from hypothesis import strategies as st

    @st.composite
    def cases(draw):
        n = draw(st.integers(0, 8))
        return dict(
            op=draw(st.sampled_from(["and", "or"])),
            shapes=[draw(st.sampled_from(["plain", "var", "eff", "stmt", "stmt", "plain", "var", "eff", "stmt", "stmt",
                                          "nul-same", "nul-other", "nest-same", "nest-same-nul"])) for _ in range(n)],
            truth=[draw(st.booleans()) for _ in range(n)],
            vsel=[draw(st.integers(0, 3)) for _ in range(n)],
            variants=[draw(st.sampled_from(STMT_VARIANTS)) for _ in range(max(n, 1))],
            ctx=draw(st.sampled_from(CONTEXTS)),
            mode=draw(st.sampled_from(["module", "function"])),
        )

    # function forms, enumerated: every value vector over the 8 pool values up to arity 3 (thorough: 4), both operators
    k = 0
    for op in ("and", "or"):
        for n in range(0, 4 if ctx.quick else 5):
            for combo in itertools.product(range(8), repeat=n):
                k += 1
                if k % ctx.n != ctx.k:
                    continue
                run_one(ctx, dict(kind="function", op=op, truth=[c >= 4 for c in combo], vsel=[c % 4 for c in combo]))

    ctx.hyp(cases(), lambda c: run_one(ctx, c), ctx.per_shard(3000, 60000), "sampled")

    @st.composite
    def fcases(draw):
        n = draw(st.integers(0, 6))
        return dict(kind="function", op=draw(st.sampled_from(["and", "or"])), truth=[draw(st.booleans()) for _ in range(n)],
                    vsel=[draw(st.integers(0, 3)) for _ in range(n)])

    ctx.hyp(fcases(), lambda c: run_one(ctx, c), ctx.per_shard(1500, 30000), "function-forms")

    if not ctx.quick:
        # exhaustive: arity <= 4, shape vectors over 3 classes, all truthiness assignments; contexts and variants rotate
        k = 0
        for op in ("and", "or"):
            for n in range(0, 5):
                for shapes in itertools.product(["plain", "eff", "stmt", "nul-same", "nest-same-nul"], repeat=n):
                    for truth in itertools.product([False, True], repeat=n):
                        k += 1
                        if k % ctx.n != ctx.k:
                            continue
                        if ctx.out_of_time():
                            return
                        case = dict(op=op, shapes=list(shapes), truth=list(truth), vsel=[(k + i) % 4 for i in range(n)],
                                    variants=[STMT_VARIANTS[(k + i) % len(STMT_VARIANTS)] for i in range(max(n, 1))],
                                    ctx=CONTEXTS[k % len(CONTEXTS)], mode=["module", "function"][k % 2])
                        run_one(ctx, case)


def EXHAUSTIVE(tier):
    return False


MATCHERS = {}
