"""Effect harness imported by generated C15 modules whose body is an Engine-A program: (import vf.c15_fx [E CM XA XB XC BOOM]).

The log survives across the imports made by one worker process; the worker calls reset() before every import."""
from vf.progs import BOOM, XA, XB, XC, Harness  # noqa: F401

H = Harness(None)


def reset():
    global H
    H = Harness(None)


def log():
    return list(H.log)


def E(eid, v):
    return H.E(eid, v)


def CM(cid, enter_value, suppress):
    return H.CM(cid, enter_value, suppress)
