"""Subprocess worker for C13: compiles each source of a JSON batch and prints hashes of the AST dump and of the bytecode."""
import ast
import hashlib
import json
import sys
import types


def code_canon(co):
    consts = []
    for c in co.co_consts:
        if isinstance(c, types.CodeType):
            consts.append(code_canon(c))
        elif isinstance(c, frozenset):
            consts.append(("frozenset", sorted(map(repr, c))))
        else:
            consts.append((type(c).__name__, repr(c)))
    return (co.co_name, co.co_argcount, co.co_posonlyargcount, co.co_kwonlyargcount, co.co_flags, co.co_code.hex(), consts, co.co_names,
            co.co_varnames, co.co_freevars, co.co_cellvars, co.co_firstlineno, co.co_linetable.hex(), co.co_exceptiontable.hex(), co.co_qualname)


def main():
    import hy
    from hy.compiler import hy_compile

    with open(sys.argv[1]) as f:
        sources = json.load(f)
    out = []
    for i, src in enumerate(sources):
        try:
            mod = types.ModuleType("vfprog13")
            tree = hy_compile(hy.read_many(src, filename="<vfprog13>"), mod, source=src, filename="<vfprog13>")
            a = hashlib.sha256(ast.dump(tree, include_attributes=True).encode()).hexdigest()[:24]
            code = compile(tree, "<vfprog13>", "exec")
            b = hashlib.sha256(repr(code_canon(code)).encode()).hexdigest()[:24]
            out.append([a, b, ast.unparse(tree) if len(sys.argv) > 2 else ""])
        except BaseException as e:  # noqa
            out.append(["error:" + type(e).__name__, str(e)[:100], ""])
    json.dump(out, sys.stdout)


if __name__ == "__main__":
    main()
