"""C31 helpers: JSON templates, a reference quasiquote expander written from docs/api.rst, comparison.

Template nodes (JSON lists).  One grammar serves templates *and* the code inside a level-0 unquote:

    ["sym", name] ["kw", name] ["int", n] ["float", text] ["str", s, brackets|None] ["bytes", latin1-text]
    ["expr"|"list"|"tuple"|"set"|"dict", [children]]
    ["fstring", [children], brackets|None, is_tstring]
    ["fcomp", [children], conversion|None, expression|None, is_tstring]
    ["quasi", child]  ["unquote", child]  ["splice", child]            (the sugar `  ~  ~@)

The child of an unquote/splice that is reached at level 0 is *code*.  The reference evaluates only this subset
(everything else is outside the check's domain): a variable vN of the environment, an int/float/str/bytes literal,
a list display of such forms, (quote TEMPLATE), and a nested quasiquote `TEMPLATE (evaluated afresh at level 0).

Environment values (JSON): ["int", n] ["float", text] ["str", s] ["bytes", s] ["none"] ["bool", b]
["list", [v]] ["tuple", [v]] ["set", [v]] (at most one element: no iteration order in a verdict)
["dict", [[k, v], ...]] ["model", template] (a literal model) ["gen", [v]] (a fresh generator) ["range", n].
"""
import math
import unicodedata

OPS = ("unquote", "unquote-splice", "quasiquote")
SIMPLE_SEQ = ("expr", "list", "tuple", "set", "dict")
SEQ = SIMPLE_SEQ + ("fstring", "fcomp")
ATOMS = ("sym", "kw", "int", "float", "str", "bytes")
INF = math.inf


class OutOfDomain(Exception):
    """The case is not one the property (or the docs) speak about; it is skipped, never judged."""


def is_op_name(name):
    return unicodedata.normalize("NFKC", name).replace("_", "-") in OPS


# -- well-formedness of the JSON (the shrinker may hand us anything) -----------------------------------------


def _opt_str(x):
    return x is None or isinstance(x, str)


def wf_node(nd):
    if not isinstance(nd, list) or not nd or not isinstance(nd[0], str):
        return False
    k = nd[0]
    if k in ("sym", "kw", "bytes"):
        return len(nd) == 2 and isinstance(nd[1], str) and (k != "bytes" or all(ord(c) < 256 for c in nd[1]))
    if k == "int":
        return len(nd) == 2 and isinstance(nd[1], int) and not isinstance(nd[1], bool)
    if k == "float":
        if len(nd) != 2 or not isinstance(nd[1], str):
            return False
        try:
            float(nd[1])
        except ValueError:
            return False
        return True
    if k == "str":
        return len(nd) == 3 and isinstance(nd[1], str) and _opt_str(nd[2])
    if k in SIMPLE_SEQ:
        return len(nd) == 2 and isinstance(nd[1], list) and all(wf_node(c) for c in nd[1])
    if k == "fstring":
        return len(nd) == 4 and isinstance(nd[1], list) and all(wf_node(c) for c in nd[1]) and _opt_str(nd[2]) and isinstance(nd[3], bool)
    if k == "fcomp":
        return (len(nd) == 5 and isinstance(nd[1], list) and all(wf_node(c) for c in nd[1]) and _opt_str(nd[2]) and _opt_str(nd[3])
                and isinstance(nd[4], bool))
    if k in ("quasi", "unquote", "splice"):
        # a splice may carry its head's spelling: unquote_splice is the same name as unquote-splice (one identifier)
        return (len(nd) == 2 or (len(nd) == 3 and k == "splice" and nd[2] in ("unquote-splice", "unquote_splice"))) and wf_node(nd[1])
    return False


def wf_value(v):
    if not isinstance(v, list) or not v or not isinstance(v[0], str):
        return False
    k = v[0]
    if k == "none":
        return len(v) == 1
    if k == "int":
        return len(v) == 2 and isinstance(v[1], int) and not isinstance(v[1], bool)
    if k == "range":
        return len(v) == 2 and isinstance(v[1], int) and not isinstance(v[1], bool) and 0 <= v[1] <= 50
    if k == "bool":
        return len(v) == 2 and isinstance(v[1], bool)
    if k == "float":
        if len(v) != 2 or not isinstance(v[1], str):
            return False
        try:
            float(v[1])
        except ValueError:
            return False
        return True
    if k in ("str", "bytes"):
        return len(v) == 2 and isinstance(v[1], str) and (k == "str" or all(ord(c) < 256 for c in v[1]))
    if k in ("list", "tuple", "gen"):
        return len(v) == 2 and isinstance(v[1], list) and all(wf_value(x) for x in v[1])
    if k == "set":
        return len(v) == 2 and isinstance(v[1], list) and len(v[1]) <= 1 and all(wf_value(x) for x in v[1])
    if k == "dict":
        return (len(v) == 2 and isinstance(v[1], list)
                and all(isinstance(p, list) and len(p) == 2 and wf_value(p[0]) and wf_value(p[1]) for p in v[1]))
    if k == "model":
        return len(v) == 2 and wf_node(v[1])
    return False


def wf_case(case):
    return (isinstance(case, dict) and wf_node(case.get("t")) and isinstance(case.get("env"), list)
            and all(wf_value(v) for v in case["env"]))


# -- the reference expander --------------------------------------------------------------------------------


class Ref:
    """Builds models from templates and expands quasiquotes the way docs/api.rst describes.

    promote=True: a substituted value is hy.as_model(value); promote=False: the value itself is inserted.
    """

    def __init__(self, env_json, promote):
        import hy.models as M

        self.M = M
        self.promote = promote
        self.gen_vars = {"v%d" % i for i, v in enumerate(env_json) if v[0] == "gen"}
        self.env = {"v%d" % i: self.value(v) for i, v in enumerate(env_json)}
        self.used = {}
        self.feat = set()
        self.nsub = 0

    # values -------------------------------------------------------------------------------------------
    def value(self, v):
        k = v[0]
        if k == "none":
            return None
        if k in ("int", "bool", "str"):
            return v[1]
        if k == "float":
            return float(v[1])
        if k == "bytes":
            return v[1].encode("latin-1")
        if k == "list":
            return [self.value(x) for x in v[1]]
        if k == "tuple":
            return tuple(self.value(x) for x in v[1])
        if k == "gen":
            return (x for x in [self.value(y) for y in v[1]])
        if k == "range":
            return range(v[1])
        try:
            if k == "set":
                return {self.value(x) for x in v[1]}
            if k == "dict":
                return {self.value(a): self.value(b) for a, b in v[1]}
        except TypeError:
            raise OutOfDomain("unhashable key or set element")
        if k == "model":
            return self.literal(v[1])
        raise OutOfDomain("unknown value kind %r" % (k,))

    def sub(self, v):
        """What a level-0 unquote puts into the result for the value v."""
        self.nsub += 1
        if not self.promote:
            return v
        import hy
        from hy.errors import HyWrapperError

        try:
            return hy.as_model(v)
        except HyWrapperError:
            raise OutOfDomain("substituted value has no model")

    # models -------------------------------------------------------------------------------------------
    def atom(self, nd):
        M = self.M
        k = nd[0]
        try:
            if k == "sym":
                return M.Symbol(nd[1], from_parser=True)
            if k == "kw":
                return M.Keyword(nd[1], from_parser=True)
            if k == "int":
                return M.Integer(nd[1])
            if k == "float":
                return M.Float(float(nd[1]))
            if k == "str":
                return M.String(nd[1], brackets=nd[2])
            if k == "bytes":
                return M.Bytes(nd[1].encode("latin-1"))
        except ValueError as e:
            raise OutOfDomain("model constructor rejects: %s" % e)
        raise OutOfDomain("not an atom")

    def make(self, nd, items):
        M = self.M
        k = nd[0]
        try:
            if k == "fstring":
                return M.FString(items, brackets=nd[2], is_tstring=nd[3])
            if k == "fcomp":
                return M.FComponent(items, conversion=nd[2], expression=nd[3], is_tstring=nd[4])
        except ValueError as e:
            raise OutOfDomain("model constructor rejects: %s" % e)
        return {"expr": M.Expression, "list": M.List, "tuple": M.Tuple, "set": M.Set, "dict": M.Dict}[k](items)

    def literal(self, nd):
        """The model a template denotes when nothing in it is live (what the reader would produce)."""
        return self.expand(nd, INF, None, 0)[0]

    def expand(self, nd, level, parent, qn):
        """-> list of result items (a splice contributes any number of them)."""
        M = self.M
        k = nd[0]
        if k in ATOMS:
            return [self.atom(nd)]
        if k in SEQ:
            kids = nd[1]
            if k == "expr" and kids and kids[0][0] == "sym" and is_op_name(kids[0][1]):
                raise OutOfDomain("unquote/quasiquote spelled as a plain expression (non-canonical, maybe wrong arity)")
            out = []
            for c in kids:
                out.extend(self.expand(c, level, k, qn))
            return [self.make(nd, out)]
        if k == "quasi":
            # one level deeper: its content stays literal unless unquoted back to level 0
            if level != INF:
                self.feat.add("quasi-nesting:%d" % (qn + 1))
            return [M.Expression([M.Symbol("quasiquote")] + self.expand(nd[1], level + 1, "quasi", qn + 1))]
        if k in ("unquote", "splice"):
            head = "unquote" if k == "unquote" else (nd[2] if len(nd) > 2 else "unquote-splice")
            if len(nd) > 2 and nd[2] != "unquote-splice":
                getattr(self, "feat", set()).add("splice-head-spelled:" + nd[2])
            if level == 0:
                v = self.eval_form(nd[1])
                self.feat.add("live-under-quasi:%d" % qn)
                if k == "unquote":
                    self.feat.add("unquote-in:%s" % (parent or "top"))
                    self.feat.add("unquote-value:%s" % value_class(v))
                    return [self.sub(v)]
                if parent is None:
                    raise OutOfDomain("splice as the whole template")
                self.feat.add("splice-in:%s" % parent)
                self.feat.add("splice-value:%s" % value_class(v, splice=True))
                v = v or []  # api.rst: "~@x splices in the result of (or x [])"
                try:
                    it = iter(v)
                except TypeError:
                    raise OutOfDomain("splice of a true non-iterable")
                return [self.sub(x) for x in it]
            if level != INF:
                self.feat.add("dead-%s:level=%d" % (k, level))
            return [M.Expression([M.Symbol(head)] + self.expand(nd[1], level - 1, k + "-literal", qn))]
        raise OutOfDomain("unknown node kind %r" % (k,))

    def expand_top(self, nd):
        items = self.expand(nd, 0, None, 0)
        assert len(items) == 1
        return items[0]

    # the code subset inside a live unquote ------------------------------------------------------------
    def eval_form(self, nd):
        k = nd[0]
        if k == "sym":
            if nd[1] not in self.env:
                raise OutOfDomain("unquoted symbol is not an environment variable")
            self.used[nd[1]] = self.used.get(nd[1], 0) + 1
            if nd[1] in self.gen_vars and self.used[nd[1]] > 1:
                raise OutOfDomain("a generator is consumed twice (evaluation order would matter)")
            self.feat.add("form:var")
            return self.env[nd[1]]
        if k == "int":
            self.feat.add("form:literal")
            return nd[1]
        if k == "float":
            self.feat.add("form:literal")
            return float(nd[1])
        if k == "str":
            self.feat.add("form:literal")
            return nd[1]
        if k == "bytes":
            self.feat.add("form:literal")
            return nd[1].encode("latin-1")
        if k == "list":
            self.feat.add("form:list-display")
            return [self.eval_form(c) for c in nd[1]]
        if k == "tuple":
            self.feat.add("form:tuple-display")
            return tuple(self.eval_form(c) for c in nd[1])
        if k in ("dict", "set"):
            vals = [self.eval_form(c) for c in nd[1]]
            try:
                if k == "dict":
                    if len(vals) % 2:
                        raise OutOfDomain("odd dict display")
                    out = dict(zip(vals[::2], vals[1::2]))
                else:
                    out = set(vals)
                    if len(out) > 1:
                        raise OutOfDomain("a set display with several distinct elements has no iteration order to judge")
            except TypeError:
                raise OutOfDomain("unhashable element in a display")
            self.feat.add("form:%s-display" % k)
            return out
        if k == "expr" and len(nd[1]) == 2 and nd[1][0] == ["sym", "quote"]:
            self.feat.add("form:quote")
            return self.literal(nd[1][1])
        if k == "quasi":
            self.feat.add("form:quasiquote")
            if nd[1][0] == "splice":
                raise OutOfDomain("splice as the whole template")
            return self.expand_top(nd[1])
        raise OutOfDomain("code inside a live unquote is outside the reference's subset")


def value_class(v, splice=False):
    import hy.models as M

    if isinstance(v, M.Object):
        name = "model-" + type(v).__name__
    elif hasattr(v, "send") and hasattr(v, "throw"):
        name = "generator"
    else:
        name = type(v).__name__
    if splice:
        try:
            empty = not v
        except Exception:
            empty = False
        return ("falsy-" if empty else "") + name
    return name


# -- comparison ----------------------------------------------------------------------------------------------


ATTRS = ("brackets", "conversion", "is_tstring", "expression")


def tree_diff(a, e, path="", parent="top"):
    """None if a (actual) equals e (expected): models type-, value- and attribute-exactly (textgen.model_diff at the
    leaves), non-model Python values type-exactly and recursively.  Else (kind, parent kind, description)."""
    import hy.models as M
    from vf import textgen as T

    p = path or "."
    if type(a) is not type(e):
        return ("type", parent, "%s: type %s != %s" % (p, type(a).__name__, type(e).__name__))
    if isinstance(e, M.Sequence):
        me = type(e).__name__
        if len(a) != len(e):
            return ("length", me, "%s: %s length %d != %d" % (p, me, len(a), len(e)))
        for at in ATTRS:
            if hasattr(a, at) or hasattr(e, at):
                if getattr(a, at, "<missing>") != getattr(e, at, "<missing>"):
                    return ("attribute-" + at, me, "%s: attribute %s %r != %r" % (p, at, getattr(a, at, "<missing>"), getattr(e, at, "<missing>")))
        for i, (x, y) in enumerate(zip(a, e)):
            d = tree_diff(x, y, "%s[%d]" % (path, i), me)
            if d:
                return d
        return None
    if isinstance(e, M.Object):
        d = T.model_diff(a, e, path)
        return ("value", parent, d) if d else None
    if isinstance(e, (list, tuple)):
        if len(a) != len(e):
            return ("length", type(e).__name__, "%s: length %d != %d" % (p, len(a), len(e)))
        for i, (x, y) in enumerate(zip(a, e)):
            d = tree_diff(x, y, "%s[%d]" % (path, i), type(e).__name__)
            if d:
                return d
        return None
    if isinstance(e, dict):
        return tree_diff(list(a.items()), list(e.items()), path + ".items", "dict") if len(a) == len(e) else (
            "length", "dict", "%s: length %d != %d" % (p, len(a), len(e)))
    if isinstance(e, (set, frozenset)):  # at most one element by construction
        return tree_diff(list(a), list(e), path + ".elements", "set")
    if isinstance(e, float):
        return None if (math.isnan(a) and math.isnan(e)) or a == e else ("value", parent, "%s: %r != %r" % (p, a, e))
    return None if a == e else ("value", parent, "%s: %r != %r" % (p, a, e))


def has_raw(x):
    """Does the result contain something that is not a model (looking through model sequences)?"""
    import hy.models as M

    if not isinstance(x, M.Object):
        return True
    return isinstance(x, M.Sequence) and any(has_raw(c) for c in x)


# -- display (evidence samples only) -------------------------------------------------------------------------


def show(nd):
    k = nd[0]
    if k == "sym":
        return nd[1]
    if k == "kw":
        return ":" + nd[1]
    if k in ("int", "float"):
        return str(nd[1])
    if k == "str":
        return repr(nd[1]) if nd[2] is None else "#[%s[%s]%s]" % (nd[2], nd[1], nd[2])
    if k == "bytes":
        return "b" + repr(nd[1])
    if k in SEQ:
        if k == "fstring":
            o, c = ("t<" if nd[3] else "f<"), ">"
        else:
            o, c = {"expr": ("(", ")"), "list": ("[", "]"), "tuple": ("#(", ")"), "set": ("#{", "}"), "dict": ("{", "}"), "fcomp": ("{|", "|}")}[k]
        extra = (" !" + nd[2] if nd[2] else "") + (" t" if nd[4] else "") if k == "fcomp" else ""
        return o + " ".join(show(x) for x in nd[1]) + extra + c
    return {"quasi": "`", "unquote": "~", "splice": "~@"}[k] + show(nd[1])


def show_value(v):
    k = v[0]
    if k == "none":
        return "None"
    if k in ("int", "bool", "float"):
        return str(v[1])
    if k == "str":
        return repr(v[1])
    if k == "bytes":
        return "b" + repr(v[1])
    if k in ("list", "tuple", "set", "gen"):
        o, c = {"list": "[]", "tuple": "()", "set": "{}", "gen": "<>"}[k]
        return ("gen" if k == "gen" else "") + o + ", ".join(show_value(x) for x in v[1]) + c
    if k == "dict":
        return "{" + ", ".join(show_value(a) + ": " + show_value(b) for a, b in v[1]) + "}"
    if k == "range":
        return "range(%d)" % v[1]
    return "'" + show(v[1])


def show_case(case):
    return "`" + show(case["t"]) + "   | " + "  ".join("v%d=%s" % (i, show_value(v)) for i, v in enumerate(case["env"]))
