"""Owned thread scheduler for C38 (hy.gensym under any thread schedule).

The harness decides which thread executes which bytecode instruction of
``hy.gensym``:

* ``sys.monitoring`` (PEP 669) INSTRUCTION events are switched on for the code
  object of ``hy.gensym`` (and of every function of the same module that it can
  reach by name, and nested code objects).  The callback runs in the worker
  thread *before* the instruction executes; there the worker records its
  position, hands the baton to the scheduler and sleeps until it is released
  again.  So exactly one worker runs at any time, one instruction per step.
  Code called from gensym that lives in other modules (hy.mangle, Symbol, str
  methods) runs inside the step of the CALL instruction, i.e. atomically.
* every module global of gensym's module that is a ``threading.Lock`` /
  ``RLock`` is replaced, while the harness is installed, by a cooperative
  stand-in: a worker that finds it taken reports "blocked" to the scheduler
  instead of sleeping in the kernel, and the scheduler never picks a thread
  whose lock is still taken.  No real blocking happens inside a step.
* a schedule is a list of switches ``[step, thread]``: "before global step
  `step`, run `thread` next".  Without a switch the thread that ran last keeps
  running; when it cannot (finished, or blocked on the lock) the lowest
  numbered runnable thread continues.  A switch that takes the processor from
  a thread that could have continued is a *pre-emption*; a switch at a point
  where the running thread cannot continue (or at step 0) is free.  A switch
  naming a thread that cannot run at that step (or the thread that would run
  anyway) is ignored, so every JSON list is a valid schedule.

Every wait has a timeout; a timeout is a ``SchedHarnessError`` (harness error,
exit 2), never a verdict.
"""
import _thread
import dis
import os
import sys
import threading
import types

WAIT_S = float(os.environ.get("VF_C38_WAIT_S", "30"))
MAX_STEPS = 20000
_ACCESS_OPS = ("LOAD_GLOBAL", "STORE_GLOBAL", "DELETE_GLOBAL", "LOAD_NAME", "STORE_NAME", "DELETE_NAME")
_WRITE_OPS = ("STORE_GLOBAL", "DELETE_GLOBAL", "STORE_NAME", "DELETE_NAME")


class SchedHarnessError(RuntimeError):
    pass


class _Abort(BaseException):
    """Unwinds a worker when a run is torn down (deadlock outcome or harness error)."""


def _release(lock):
    try:
        lock.release()
    except RuntimeError:
        pass


class CoopLock:
    """Cooperative stand-in for a threading.Lock / RLock held in a module global.

    Only one worker runs at a time, so the fields need no protection of their own.
    """

    def __init__(self, harness, name, reentrant):
        self._h = harness
        self._name = name
        self._reentrant = reentrant
        self._owner = None
        self._count = 0

    def _reset(self):
        self._owner = None
        self._count = 0

    def _me(self):
        tls = self._h.tls
        run = getattr(tls, "run", None)
        if run is None:
            return None, ("ext", threading.get_ident())
        return run, tls.idx

    def acquire(self, blocking=True, timeout=-1):
        run, me = self._me()
        while True:
            if run is not None and run.abort:
                return True
            if self._owner is None or (self._reentrant and self._owner == me):
                self._owner = me
                self._count += 1
                return True
            if not blocking or timeout is not None and timeout >= 0:
                return False  # "timed out": a legal behaviour of a bounded acquire
            if run is None:
                raise SchedHarnessError(
                    "cooperative lock %s is held by %r while a thread outside the scheduler wants it" % (self._name, self._owner))
            run.block(me, self)

    def release(self):
        run, me = self._me()
        if run is not None and run.abort:
            return
        if self._owner is None:
            raise RuntimeError("release unlocked lock")
        if self._reentrant and self._owner != me:
            raise RuntimeError("cannot release un-acquired lock")
        self._count -= 1
        if self._count <= 0:
            self._owner = None
            self._count = 0

    def locked(self):
        return self._owner is not None

    def __enter__(self):
        self.acquire()
        return True

    def __exit__(self, *a):
        self.release()
        return False

    def __repr__(self):
        return "<CoopLock %s owner=%r>" % (self._name, self._owner)


_LOCK_TYPES = (type(_thread.allocate_lock()), type(threading.RLock()))


class Harness:
    """Installed once per process section (``with Harness.get(): ...``), re-entrant."""

    _current = None

    def __init__(self):
        import hy  # noqa
        import hy.models

        self.hy = hy
        self.fn = hy.gensym
        self.tls = threading.local()
        self.depth = 0
        self.tool = None
        self.codes = []
        self.code_index = {}
        self.replaced = {}  # global name -> original lock
        self.coop = {}
        self.shared = ()
        self.access = set()  # (code index, offset) of instructions touching a global that gensym code writes
        self.snapshot = {}
        self.run = None
        self.pool = []  # persistent worker threads: (thread, job lock)
        self.jobs = []  # job handed to pool worker i
        self.pool_broken = False
        self._baseline = {}
        self._discover()

    # -- what to instrument --------------------------------------------------
    def _discover(self):
        fn = self.fn
        seen_f = []
        while isinstance(fn, types.FunctionType) and fn not in seen_f:
            seen_f.append(fn)
            fn = getattr(fn, "__wrapped__", None)
        if not seen_f:
            raise SchedHarnessError("hy.gensym is not a Python function: %r" % (self.fn,))
        root = seen_f[-1]
        self.globals = root.__globals__
        todo = [f.__code__ for f in seen_f]
        while todo and len(self.codes) < 64:
            c = todo.pop(0)
            if c in self.code_index:
                continue
            self.code_index[c] = len(self.codes)
            self.codes.append(c)
            for k in c.co_consts:
                if isinstance(k, types.CodeType):
                    todo.append(k)
            for nm in c.co_names:
                v = self.globals.get(nm)
                if isinstance(v, types.FunctionType) and v.__globals__ is self.globals:
                    todo.append(v.__code__)
        written = set()
        for c in self.codes:
            for ins in dis.get_instructions(c):
                if ins.opname in _WRITE_OPS:
                    written.add(ins.argval)
        self.shared = tuple(sorted(written))
        for ci, c in enumerate(self.codes):
            for ins in dis.get_instructions(c):
                if ins.opname in _ACCESS_OPS and ins.argval in written:
                    self.access.add((ci, ins.offset))

    def describe(self):
        return dict(
            codes=["%s:%s" % (os.path.basename(c.co_filename), c.co_name) for c in self.codes],
            instructions=sum(1 for c in self.codes for _ in dis.get_instructions(c)),
            shared_globals=list(self.shared),
            shared_access_offsets=sorted([ci, off] for ci, off in self.access),
            locks_replaced=sorted(self.replaced),
        )

    # -- install / uninstall -------------------------------------------------
    @classmethod
    def get(cls):
        if cls._current is None:
            cls._current = Harness()
        return cls._current

    def __enter__(self):
        self.depth += 1
        if self.depth == 1:
            try:
                self._install()
            except BaseException:
                self.depth = 0
                self._uninstall()
                raise
        return self

    def __exit__(self, *a):
        self.depth -= 1
        if self.depth == 0:
            self._uninstall()
            Harness._current = None
        return False

    def _install(self):
        mon = sys.monitoring
        for tid in (4, 5, 2, 1, 0, 3):
            if mon.get_tool(tid) is None:
                mon.use_tool_id(tid, "vf-c38-scheduler")
                self.tool = tid
                break
        else:
            raise SchedHarnessError("no free sys.monitoring tool id")
        mon.register_callback(self.tool, mon.events.INSTRUCTION, self._on_instruction)
        for c in self.codes:
            mon.set_local_events(self.tool, c, mon.events.INSTRUCTION)
        for nm, v in list(self.globals.items()):
            if isinstance(v, _LOCK_TYPES):
                self.replaced[nm] = v
                self.coop[nm] = self.globals[nm] = CoopLock(self, nm, isinstance(v, _LOCK_TYPES[1]))
        self.snapshot = {nm: self.globals[nm] for nm in self.shared
                         if type(self.globals.get(nm)) is int}

    def _uninstall(self):
        mon = sys.monitoring
        if self.tool is not None:
            try:
                for c in self.codes:
                    mon.set_local_events(self.tool, c, 0)
                mon.register_callback(self.tool, mon.events.INSTRUCTION, None)
            finally:
                mon.free_tool_id(self.tool)
                self.tool = None
        for nm, v in self.replaced.items():
            if self.globals.get(nm) is self.coop.get(nm):
                self.globals[nm] = v
        self.replaced = {}
        self.coop = {}
        for nm, v in self.snapshot.items():  # never leave the counter lower than we found it
            cur = self.globals.get(nm)
            if type(cur) is int and cur < v:
                self.globals[nm] = v
        self._stop_pool()

    # -- persistent worker threads (creating a threading.Thread per run costs milliseconds) ----
    def _pool_main(self, i, job_lock):
        while True:
            job_lock.acquire()  # idle daemon thread waiting for work; released by start_worker / _stop_pool
            job = self.jobs[i]
            self.jobs[i] = None
            if job is None:
                return
            job[0]._worker(job[1])

    def start_worker(self, i, run):
        if self.pool_broken:
            # a previous run left a thread stuck: abandon those daemon threads
            self.pool, self.jobs, self.pool_broken = [], [], False
        while len(self.pool) <= i:
            lk = _thread.allocate_lock()
            lk.acquire()
            self.jobs.append(None)
            th = threading.Thread(target=self._pool_main, args=(len(self.pool), lk), name="c38-w%d" % len(self.pool), daemon=True)
            self.pool.append((th, lk))
            th.start()
        self.jobs[i] = (run, i)
        _release(self.pool[i][1])

    def _stop_pool(self):
        pool, self.pool = self.pool, []
        if self.pool_broken:
            self.jobs, self.pool_broken = [], False
            return
        for i, (th, lk) in enumerate(pool):
            self.jobs[i] = None
            _release(lk)
        for th, lk in pool:
            th.join(WAIT_S)
        self.jobs = []

    # -- the event callback (runs in the worker thread) -----------------------
    def _on_instruction(self, code, offset):
        run = getattr(self.tls, "run", None)
        if run is None or run.abort:
            return
        i = self.tls.idx
        try:
            run.pos[i] = (self.code_index.get(code, -1), offset)
            run.park(i, "parked")
        except _Abort:
            raise
        except BaseException as e:  # a bug of the harness must not look like an exception raised by gensym
            run.errors.append("scheduler callback failed in worker %d: %r" % (i, e))
            run.abort = True
            raise _Abort()

    # -- sequential baseline: does gensym(arg) raise when called alone? --------
    def baseline(self, arg):
        key = repr(arg)
        if key not in self._baseline:
            try:
                self.fn() if arg is None else self.fn(arg)
                self._baseline[key] = None
            except Exception as e:  # noqa
                self._baseline[key] = type(e).__name__
        return self._baseline[key]

    # -- one schedule ----------------------------------------------------------
    def execute(self, calls, switches):
        if self.depth == 0:
            raise SchedHarnessError("harness not installed")
        if self.run is not None:
            raise SchedHarnessError("nested run")
        for lk in self.coop.values():
            lk._reset()
        for nm, v in self.snapshot.items():
            self.globals[nm] = v
        run = _Run(self, calls, switches)
        self.run = run
        try:
            return run.go_all()
        finally:
            self.run = None


class _Run:
    """One schedule.  The scheduling decision is taken by whichever thread holds the baton (the thread that
    just stopped before an instruction, blocked, or finished): if the schedule says that it continues, it
    simply continues, otherwise it wakes the chosen thread and sleeps.  So a run costs one thread hand-over
    per switch, not per instruction.  The main thread only sets the run up and waits for its end."""

    def __init__(self, h, calls, switches):
        self.h = h
        self.calls = calls
        n = len(calls)
        self.n = n
        self.switch_at = {}
        for s, t in switches:
            self.switch_at.setdefault(s, t)
        self.sched = _thread.allocate_lock()  # signals the main thread: the run is over
        self.sched.acquire()
        self.go, self.ready, self.fin = [], [], []
        for _ in range(n):
            for lst in (self.go, self.ready, self.fin):
                lk = _thread.allocate_lock()
                lk.acquire()
                lst.append(lk)
        self.phase = "setup"
        self.status = ["new"] * n
        self.pos = [None] * n
        self.call_no = [0] * n
        self.blocked_on = [None] * n
        self.results = [[] for _ in range(n)]
        self.abort = False
        self.errors = []
        self.started = 0
        # trace
        self.tr_thread, self.tr_pos, self.tr_call, self.tr_end = [], [], [], []
        self.enabled_l, self.default_l, self.runnable_l = [], [], []
        self.cur = None
        self.step = 0
        self.pre = 0
        self.ignored = 0
        self.outcome = None

    # -- baton holder ------------------------------------------------------------
    def _enabled(self, t):
        st = self.status[t]
        if st == "parked":
            return True
        if st == "blocked":
            lk = self.blocked_on[t]
            return lk is None or lk._owner is None
        return False

    def _decide(self):
        """Choose the thread of the next step and log it; None when the run is over."""
        n = self.n
        en = [t for t in range(n) if self._enabled(t)]
        if not en:
            self.outcome = "completed" if all(s == "done" for s in self.status) else "deadlock"
            return None
        if self.step >= MAX_STEPS:
            self.errors.append("more than %d steps" % MAX_STEPS)
            return None
        cur = self.cur
        cur_ok = cur is not None and cur in en
        default = cur if cur_ok else en[0]
        choice = default
        step = self.step
        if step in self.switch_at:
            t = self.switch_at[step]
            if t in en and t != default:
                choice = t
                if cur_ok:
                    self.pre += 1
            else:
                self.ignored += 1
        self.enabled_l.append(en)
        self.default_l.append(default)
        self.runnable_l.append(cur_ok)
        self.tr_thread.append(choice)
        self.tr_pos.append(self.pos[choice])
        self.tr_call.append(self.call_no[choice])
        self.cur = choice
        self.step = step + 1
        return choice

    def _sleep(self, i):
        if not self.go[i].acquire(timeout=3 * WAIT_S):
            self.errors.append("worker %d was never rescheduled" % i)
            self.abort = True
        if self.abort:
            raise _Abort()

    def park(self, i, status):
        """Worker i stops here (before an instruction / on a taken lock / at its end) and passes the baton."""
        self.status[i] = status
        if self.phase == "setup":
            _release(self.ready[i])
            self._sleep(i)
            return
        self.tr_end.append(status)  # how the step just executed (by i) ended
        choice = self._decide()
        if choice == i:
            return
        if choice is None:
            _release(self.sched)
        else:
            _release(self.go[choice])
        if status != "done":
            self._sleep(i)

    def block(self, i, lock):
        self.blocked_on[i] = lock
        try:
            self.park(i, "blocked")
        except _Abort:
            raise
        except BaseException as e:  # harness bug, not an outcome of gensym
            self.errors.append("scheduler failed while worker %d was blocked: %r" % (i, e))
            self.abort = True
            raise _Abort()
        finally:
            self.blocked_on[i] = None

    def _worker(self, i):
        h = self.h
        h.tls.run = self
        h.tls.idx = i
        fn = h.fn
        try:
            for j, arg in enumerate(self.calls[i]):
                if self.abort:
                    break
                self.call_no[i] = j
                try:
                    r = fn() if arg is None else fn(arg)
                    self.results[i].append(("ok", r))
                except Exception as e:  # noqa: the outcome of this call
                    self.results[i].append(("exc", type(e).__name__, str(e)[:200]))
        except _Abort:
            pass
        except BaseException as e:  # noqa
            self.errors.append("worker %d: %r" % (i, e))
        h.tls.run = None
        try:
            if self.abort or self.errors or self.phase == "setup":
                self.status[i] = "done"
                _release(self.ready[i])
                _release(self.sched)
            else:
                self.park(i, "done")
        except _Abort:
            pass
        finally:
            _release(self.fin[i])

    # -- main thread -------------------------------------------------------------
    def _fail(self, msg):
        try:
            self._teardown()
        except SchedHarnessError as e:
            msg += "; " + str(e)
        raise SchedHarnessError(msg)

    def _wait(self, lock, what):
        if not lock.acquire(timeout=WAIT_S):
            self._fail("timeout (%.0fs) waiting for %s; statuses=%r positions=%r; a worker is asleep inside one step, most likely on a "
                       "real lock that the harness could not replace (replaced module-global locks: %r). This is a harness limit, not a verdict"
                       % (WAIT_S, what, self.status, self.pos, sorted(self.h.replaced)))
        if self.errors:
            self._fail("; ".join(self.errors))

    def _teardown(self):
        """Stop every worker of this run and wait until each has left the run."""
        self.abort = True
        for lk in self.go:
            _release(lk)
        stuck = []
        for i in range(self.started):
            if not self.fin[i].acquire(timeout=WAIT_S):
                stuck.append(i)
        if stuck:
            self.h.pool_broken = True
            raise SchedHarnessError("worker threads did not stop: %r (statuses=%r)" % (stuck, self.status))

    def go_all(self):
        n = self.n
        # every worker runs up to the first instruction of its first call (nothing shared is touched before it)
        self.started = 0
        for i in range(n):
            self.h.start_worker(i, self)
            self.started += 1
        for i in range(n):
            self._wait(self.ready[i], "thread %d to reach the first instruction of gensym" % i)
            if self.status[i] != "parked":
                self._fail("thread %d did not stop at the first instruction of gensym (status %r): instrumentation is not active" % (i, self.status[i]))
        self.phase = "run"
        first = self._decide()
        if first is None:
            self._fail("nothing to run: %r" % (self.errors,))
        _release(self.go[first])
        self._wait(self.sched, "the end of the run")
        if self.outcome is None:
            self._fail("run ended without an outcome: %r" % (self.errors,))
        step = self.step
        self.ignored += sum(1 for s in self.switch_at if s >= step)
        blocked_left = [t for t in range(n) if self.status[t] == "blocked"]
        results = [list(r) for r in self.results]
        self._teardown()
        if len(self.tr_end) != step:
            raise SchedHarnessError("trace bookkeeping: %d steps, %d step ends" % (step, len(self.tr_end)))
        return dict(
            outcome=self.outcome, results=results, steps=step, preemptions=self.pre, ignored=self.ignored,
            thread=self.tr_thread, pos=self.tr_pos, call=self.tr_call, end=self.tr_end,
            enabled=self.enabled_l, default=self.default_l, cur_runnable=self.runnable_l, blocked_left=blocked_left,
        )


# -- analysis of a trace -------------------------------------------------------


def windows(h, res):
    """{(thread, call): (first, last)} step indices of the first and the last executed access to a
    global that gensym's code writes (the counter); the whole call when there is no such global."""
    w = {}
    use_access = bool(h.access)
    for s, (t, p, c) in enumerate(zip(res["thread"], res["pos"], res["call"])):
        if use_access and (p is None or tuple(p) not in h.access):
            continue
        k = (t, c)
        if k in w:
            w[k] = (w[k][0], s)
        else:
            w[k] = (s, s)
    return w


def classify(h, res):
    """-> set of class names describing what the schedule exercised."""
    cls = set()
    w = windows(h, res)
    th = res["thread"]
    pos = res["pos"]
    inside = False
    overlap = False
    for (t, c), (f, l) in w.items():
        for s in range(f + 1, l):
            if th[s] != t:
                inside = True
                if not h.access or (pos[s] is not None and tuple(pos[s]) in h.access):
                    overlap = True
    if inside:
        cls.add("switch-inside-counter-window")
    if overlap:
        cls.add("counter-windows-interleaved")
    if "blocked" in res["end"]:
        cls.add("thread-blocked-on-lock")
    cls.add("preemptions=%d" % min(res["preemptions"], 6) + ("+" if res["preemptions"] > 6 else ""))
    return cls


def render(res, limit=40):
    """The interleaving as runs of (thread: first offset..last offset)."""
    out = []
    prev = None
    for t, p, e in zip(res["thread"], res["pos"], res["end"]):
        off = p[1] if p else "?"
        tag = "!" if e == "blocked" else ""
        if prev is not None and prev[0] == t:
            prev[2] = "%s%s" % (off, tag)
        else:
            prev = [t, "%s" % off, "%s%s" % (off, tag)]
            out.append(prev)
    segs = ["T%d:%s-%s" % (a, b, c) for a, b, c in out]
    if len(segs) > limit:
        segs = segs[:limit] + ["..."]
    return " ".join(segs)
