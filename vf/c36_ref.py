"""Reference model for C36 (hy.macroexpand-1 / hy.macroexpand).

Nothing here imports hy.  Models, macro templates and whole macro environments
are plain JSON values; `expected(case)` computes, from the documented rules
only, what hy.macroexpand-1 / hy.macroexpand must return for a case, and
`Invalid` is raised for a case the property does not speak about (arity
mismatch, endless chain, a form that a compiler-implemented core macro would
reject, ...), so that the shrinker cannot wander out of the domain.

Model nodes (JSON lists)
    ["s", text] Symbol      ["k", name] Keyword      ["i", int] Integer
    ["f", float] Float      ["str", text] String     ["b", ascii text] Bytes
    ["(", [..]] Expression  ["[", [..]] List  ["{", [..]] Dict
    ["#(", [..]] Tuple      ["#{", [..]] Set
Template-only nodes
    ["~", param]   unquote of a macro parameter
    ["~@", param]  unquote-splice of a #* parameter

Macro definition (JSON dict)
    name    text
    ns      "mod" (defmacro in the module), "src" (defmacro in module c36src,
            reached as P.name after `(require c36src :as P)` and always as
            hy.R.c36src.name), "ovr" (passed in the macros= dictionary)
    pos     [param, ...]              positional parameters
    opt     [[param, literal node]]   optional parameters [p default]
    rest    param | None              #* parameter
    body    {"k": "tmpl", "t": template}     `template
            {"k": "arg", "p": param}         returns its argument object itself
            {"k": "py", "t": template}       returns a Python value (list, tuple, dict, int, str, float, None, True) built from literals and parameters
            {"k": "count", "t": template}    pos[0] is an Integer n: n > 0 -> `(SELF ~(- n 1) other parameters...), else `template
"""
import re

SEQ = ("(", "[", "{", "#(", "#{")
CLOSE = {"(": ")", "[": "]", "{": "}", "#(": ")", "#{": "}"}
SRC_MODULE = "c36src"
MOD_NAME = "c36mod"
PREFIX = "P"
FUEL = 14

# every core macro name (hy/core/result_macros.py pattern_macro names, hy/core/macros.hy), as written in Hy source.
# A head with one of these names that the tables below do not describe makes a case Invalid.
ALL_CORE = set(
    "do eval-and-compile eval-when-compile do-mac py pys pragma quote quasiquote unquote unquote-splice not bnot and or = is < <= > >= != "
    "is-not in not-in chainc + * | - / & @ ** // << >> % ^ setv setx let annotate deftype global nonlocal del get . cut unpack-iterable "
    "unpack-mapping if for lfor sfor gfor dfor while break continue with match raise try except except* else finally fn defn defmacro "
    "return yield await defclass require import assert cond when defreader get-macro local-macros export".split()
)
CORE_BY_MANGLED = {c.replace("-", "_"): c for c in ALL_CORE}
CORE_MODEL = ("when", "cond")  # implemented in Hy, return models (docs/api.rst gives their expansions)

NAME_RE = re.compile(r"^[A-Za-z][A-Za-z0-9]*(?:[-_][A-Za-z0-9]+)*$")

VARS = ["a", "b", "c", "x1"]
CONSTS = ["None", "True", "False"]
FUNCS = ["foo", "bar-baz", "g", "print", "shadowed-WRONG"]
PYSTR = {"py": ["1+1", "x", "f(a)"], "pys": ["x = 1", "pass"]}


class Invalid(Exception):
    pass


def mangle(name):
    """hy.mangle restricted to the names this check uses (letters, digits, inner - and _)."""
    if not NAME_RE.match(name):
        raise Invalid("name outside the supported alphabet: %r" % (name,))
    return name.replace("-", "_")


# ---------------------------------------------------------------- rendering


def render(n):
    """Hy source text of a model node or template."""
    t = n[0]
    if t == "s":
        return n[1]
    if t == "k":
        return ":" + n[1]
    if t == "i":
        return str(n[1])
    if t == "f":
        return repr(float(n[1]))
    if t == "str":
        import json

        return json.dumps(n[1], ensure_ascii=False)
    if t == "b":
        return 'b"%s"' % n[1]
    if t in SEQ:
        return t + " ".join(render(c) for c in n[1]) + CLOSE[t]
    if t == "~":
        return "~" + n[1]
    if t == "~@":
        return "~@" + n[1]
    raise Invalid("unknown node %r" % (n,))


def render_py(n):
    """A `py` body: the same literals, evaluated instead of quoted; parameters appear bare."""
    t = n[0]
    if t == "~":
        return n[1]
    if t == "s":
        if n[1] not in CONSTS:
            raise Invalid("only None/True/False symbols in a py body")
        return n[1]
    if t in ("i", "f", "str"):
        return render(n)
    if t in ("[", "#(", "{"):
        return t + " ".join(render_py(c) for c in n[1]) + CLOSE[t]
    raise Invalid("node not allowed in a py body: %r" % (n,))


def render_params(d):
    parts = list(d["pos"])
    for p, dflt in d["opt"]:
        parts.append("[%s %s]" % (p, render_py(dflt)))
    if d.get("rest"):
        parts.append("#* " + d["rest"])
    return "[" + " ".join(parts) + "]"


def self_head(d):
    if d["ns"] == "src":
        return ["(", [["s", "."], ["s", "hy"], ["s", "R"], ["s", SRC_MODULE], ["s", d["name"]]]]
    return ["s", d["name"]]


def render_defmacro(d):
    b = d["body"]
    k = b["k"]
    if k == "tmpl":
        body = "`" + render(b["t"])
    elif k == "arg":
        body = b["p"]
    elif k == "py":
        body = render_py(b["t"])
    elif k == "count":
        n = d["pos"][0]
        others = ["~" + p for p in d["pos"][1:]] + ["~" + p for p, _ in d["opt"]] + (["~@" + d["rest"]] if d.get("rest") else [])
        body = "(if (> %s 0) `(%s ~(- %s 1) %s) `%s)" % (n, render(self_head(d)), n, " ".join(others), render(b["t"]))
    else:
        raise Invalid("unknown body kind %r" % (k,))
    # (c36-tick) counts macro calls; the harness stops an expansion that never ends (see vf/props/c36.py)
    return "(defmacro %s %s (c36-tick) %s)" % (d["name"], render_params(d), body)


# ---------------------------------------------------------------- lookup


def head_key(head):
    """The name a head denotes: a symbol, or (. a b c) written out (what the reader makes of a.b.c)."""
    if head[0] == "s":
        if head[1] in ALL_CORE:
            return ("core", head[1])
        key = mangle(head[1])
        if key in CORE_BY_MANGLED:  # do_mac is do-mac
            return ("core", CORE_BY_MANGLED[key])
        return ("name", key)
    if head[0] == "(" and head[1] and head[1][0] == ["s", "."] and all(c[0] == "s" for c in head[1]):
        if len(head[1]) < 3:
            raise Invalid("(. x) / (.) as a head is not in the domain")
        return ("name", ".".join(mangle(c[1]) for c in head[1][1:]))
    return None


class Env:
    def __init__(self, case):
        self.ovr, self.mod, self.src = {}, {}, {}
        self.use_ovr = case.get("macros_arg") == "dict"
        self.req = bool(case.get("req"))
        for d in case["macros"]:
            key = mangle(d["name"])
            table = {"mod": self.mod, "src": self.src, "ovr": self.ovr}[d["ns"]]
            if key in table:
                raise Invalid("two definitions of %s in one namespace" % key)
            if d["name"] in ALL_CORE and not (d["ns"] == "mod" and d["name"] in ("when", "cond", "assert")):
                raise Invalid("shadowing of this core macro is not in the domain")
            table[key] = d
        if self.ovr and not self.use_ovr:
            raise Invalid("ovr macros need macros_arg=dict")

    def lookup(self, head):
        """-> None | ("user", def) | ("core-model", name) | ("core-result", name)"""
        hk = head_key(head)
        if hk is None:
            return None
        kind, key = hk
        if kind == "core":
            mk = key.replace("-", "_")
            if self.use_ovr and mk in self.ovr:
                return ("user", self.ovr[mk])
            if mk in self.mod:
                return ("user", self.mod[mk])
            if key in CORE_MODEL:
                return ("core-model", key)
            return ("core-result", key)
        if key.startswith("hy.R."):
            modname, _, name = key[len("hy.R."):].partition(".")
            if modname != SRC_MODULE or name not in self.src:
                raise Invalid("hy.R target unknown")
            return ("user", self.src[name])
        if key.startswith("hy.pyops."):
            return None  # the operator functions: not macros
        if key.startswith("hy."):
            raise Invalid("hy.* heads are not in the domain")
        if self.use_ovr and key in self.ovr:
            return ("user", self.ovr[key])
        if key in self.mod:
            return ("user", self.mod[key])
        if self.req and key.startswith(PREFIX + ".") and key[len(PREFIX) + 1:] in self.src:
            return ("user", self.src[key[len(PREFIX) + 1:]])
        return None


# ---------------------------------------------------------------- one expansion


def bind(d, args):
    npos, nopt = len(d["pos"]), len(d["opt"])
    if len(args) < npos or (not d.get("rest") and len(args) > npos + nopt):
        raise Invalid("arity")
    b = {}
    for p, a in zip(d["pos"], args):
        b[p] = a
    rem = args[npos:]
    for i, (p, dflt) in enumerate(d["opt"]):
        b[p] = rem[i] if i < len(rem) else py_value_node(dflt)
    if d.get("rest"):
        b[d["rest"]] = ["#(", list(rem[nopt:])]  # a Python tuple of models: as-model makes a Tuple of it
    if len(b) != npos + nopt + (1 if d.get("rest") else 0):
        raise Invalid("duplicate parameter names")
    return b


def py_value_node(n):
    if n[0] == "s" and n[1] not in CONSTS:
        raise Invalid("bad default")
    if n[0] not in ("s", "i", "str", "f"):
        raise Invalid("bad default")
    return n


def subst(t, b, d, py=False):
    k = t[0]
    if k == "~":
        if t[1] not in b:
            raise Invalid("unknown parameter")
        return b[t[1]]
    if k == "~@":
        raise Invalid("splice outside a sequence")
    if k in SEQ:
        if py and k in ("(", "#{"):
            raise Invalid("not a py value")
        out = []
        for c in t[1]:
            if c[0] == "~@":
                if py or c[1] != d.get("rest") or c[1] not in b:
                    raise Invalid("splice of a non-rest parameter")
                out.extend(b[c[1]][1])
            else:
                out.append(subst(c, b, d, py))
        if py and k == "{":
            if len(out) % 2:
                raise Invalid("odd dict")
            keys = [tuple(x) if x[0] in ("i", "str") else None for x in out[::2]]
            if None in keys or len(set(keys)) != len(keys) or any(x[0] == "i" and x[1] in (0, 1) for x in out[::2]):
                raise Invalid("dict keys must be distinct literal ints/strings")
        return [k, out]
    if py:
        if k == "s" and t[1] not in CONSTS:
            raise Invalid("symbol in py value")
        if k not in ("s", "i", "f", "str"):
            raise Invalid("not a py value")
    return t


def apply_macro(d, args):
    b = bind(d, args)
    body = d["body"]
    k = body["k"]
    if k == "tmpl":
        return subst(body["t"], b, d)
    if k == "arg":
        if body["p"] not in b:
            raise Invalid("unknown parameter")
        return b[body["p"]]
    if k == "py":
        return subst(body["t"], b, d, py=True)
    if k == "count":
        if not d["pos"]:
            raise Invalid("count macro without a counter")
        n = b[d["pos"][0]]
        if n[0] != "i" or isinstance(n[1], bool) or not (0 <= n[1] <= 6):
            raise Invalid("counter must be a small non-negative Integer")
        if n[1] > 0:
            rest = [b[p] for p in d["pos"][1:]] + [b[p] for p, _ in d["opt"]] + (b[d["rest"]][1] if d.get("rest") else [])
            return ["(", [self_head(d), ["i", n[1] - 1]] + rest]
        return subst(body["t"], b, d)
    raise Invalid("unknown body kind")


def apply_core_model(name, args):
    if name == "when":  # api.rst: shorthand for (if test (do ...) None)
        if not args:
            raise Invalid("when needs a test")
        return ["(", [["s", "if"], args[0], ["(", [["s", "do"]] + list(args[1:])], ["s", "None"]]]
    if name == "cond":  # api.rst: nested ifs, None at the end; odd argument count is an error
        if len(args) % 2:
            raise Invalid("cond needs an even number of arguments")
        out = ["s", "None"]
        for i in range(len(args) - 2, -1, -2):
            out = ["(", [["s", "if"], args[i], args[i + 1], out]]
        return out
    raise Invalid("core model macro not modelled")


# ---------------------------------------------------------------- forms a compiler-implemented macro accepts

E, N, W = ("E",), ("N",), ("W",)


def L(text):
    return ("lit", ["s", text])


def X(*fixed, rest=None):
    return ("(", list(fixed), rest)


def B(*fixed, rest=None):
    return ("[", list(fixed), rest)


SHAPES = {
    "if": [X(L("if"), E, E, E)],
    "setv": [X(L("setv"), N, E)],
    "setx": [X(L("setx"), N, E)],
    "do": [X(L("do"), rest=E)],
    "fn": [X(L("fn"), B(rest=N), rest=E)],
    "defn": [X(L("defn"), N, B(rest=N), rest=E)],
    "quote": [X(L("quote"), W)],
    "quasiquote": [X(L("quasiquote"), W)],
    "while": [X(L("while"), E, rest=E)],
    "for": [X(L("for"), B(N, E), rest=E)],
    "lfor": [X(L("lfor"), N, E, E)],
    "with": [X(L("with"), B(N, E), rest=E)],
    "let": [X(L("let"), B(N, E), rest=E)],
    "try": [X(L("try"), E, X(L("except"), B(L("Exception")), E))],
    "+": [X(L("+"), E, rest=E)],
    "-": [X(L("-"), E, rest=E)],
    "*": [X(L("*"), E, rest=E)],
    "=": [X(L("="), E, E, rest=E)],
    "<": [X(L("<"), E, E, rest=E)],
    "and": [X(L("and"), rest=E)],
    "or": [X(L("or"), rest=E)],
    "not": [X(L("not"), E)],
    "in": [X(L("in"), E, E)],
    "get": [X(L("get"), E, E)],
    "cut": [X(L("cut"), E, E, E)],
    "raise": [X(L("raise"), E)],
    "assert": [X(L("assert"), E)],
    "return": [X(L("return"), E)],
    "await": [X(L("await"), E)],
    "yield": [X(L("yield"), E)],
    ".": [X(L("."), E, N)],
    "del": [X(L("del"), N)],
    "global": [X(L("global"), N)],
    "break": [X(L("break"))],
    "continue": [X(L("continue"))],
    "import": [X(L("import"), L("os"))],
    "defclass": [X(L("defclass"), N, B(), rest=E)],
    "annotate": [X(L("annotate"), N, E)],
    "py": [X(L("py"), ("PYSTR", "py"))],
    "pys": [X(L("pys"), ("PYSTR", "pys"))],
}


def wild_ok(n):
    """Anything made of the model node kinds, without unquote heads."""
    if n[0] in SEQ:
        return all(wild_ok(c) for c in n[1]) and not (n[0] == "(" and n[1] and n[1][0][0] == "s" and n[1][0][1].startswith("unquote"))
    return n[0] in ("s", "k", "i", "f", "str", "b")


def match(n, pat, env, fuel):
    k = pat[0]
    if k == "E":
        return compile_safe(n, env, fuel)
    if k == "N":
        return n[0] == "s" and n[1] in VARS
    if k == "W":
        return wild_ok(n)
    if k == "lit":
        return n == pat[1]
    if k == "PYSTR":
        return n[0] == "str" and n[1] in PYSTR[pat[1]]
    if k in ("(", "["):
        if n[0] != k:
            return False
        fixed, rest = pat[1], pat[2]
        items = n[1]
        if len(items) < len(fixed) or (rest is None and len(items) != len(fixed)):
            return False
        return all(match(c, p, env, fuel) for c, p in zip(items, fixed)) and all(match(c, rest, env, fuel) for c in items[len(fixed):])
    raise AssertionError(pat)


def result_form_ok(form, name, env, fuel):
    return any(match(form, p, env, fuel) for p in SHAPES.get(name, ()))


def compile_safe(n, env, fuel=FUEL):
    """Conservative: True only for forms the Hy compiler certainly compiles (so that a Result macro returns a Result)."""
    if fuel <= 0:
        return False
    k = n[0]
    if k == "s":
        return n[1] in VARS or n[1] in CONSTS
    if k in ("i", "str", "f"):
        return True
    if k in ("[", "#("):
        return all(compile_safe(c, env, fuel - 1) for c in n[1])
    if k != "(" or not n[1]:
        return False
    head = n[1][0]
    if head[0] == "(" and head[1] and head[1][0] == ["s", "."] and len(head[1]) == 3 and head[1][1] == ["s", "obj"] and head[1][2] == ["s", "meth"]:
        return all(compile_safe(c, env, fuel - 1) for c in n[1][1:])
    r = env.lookup(head)
    if r is None:
        return head[0] == "s" and head[1] in FUNCS and all(compile_safe(c, env, fuel - 1) for c in n[1][1:])
    if r[0] == "core-result":
        return result_form_ok(n, r[1], env, fuel - 1)
    nxt = apply_macro(r[1], n[1][1:]) if r[0] == "user" else apply_core_model(r[1], n[1][1:])
    return compile_safe(nxt, env, fuel - 1)


# ---------------------------------------------------------------- the stepper

SHADOW_OPS = {"not", "bnot", "and", "or", "=", "is", "<", "<=", ">", ">=", "!=", "is-not", "in", "not-in", "+", "*", "|", "-", "/", "&", "@",
              "**", "//", "<<", ">>", "%", "^", "get"}


def is_unpack_iterable(n):
    return n[0] == "(" and len(n[1]) >= 1 and n[1][0] == ["s", "unpack-iterable"]



def step(form, env):
    """-> (kind, form', info): kind "identity" (no macro call), "result" (compiler-implemented core macro: form stays), "expanded"."""
    if form[0] != "(" or not form[1]:
        return ("identity", form, None)
    r = env.lookup(form[1][0])
    if r is None:
        return ("identity", form, None)
    if r[0] == "core-result" and r[1] in SHADOW_OPS and any(is_unpack_iterable(a) for a in form[1][1:]):
        # docs (hy.pyops) / property C03: an operator-macro call containing #* falls back to the same-named hy.pyops function;
        # the macro returns that call as a model, so it is an expansion step like any other
        return ("expanded", ["(", [["(", [["s", "."], ["s", "hy"], ["s", "pyops"], ["s", r[1]]]]] + list(form[1][1:])], "core-shadow:" + r[1])
    if r[0] == "core-result":
        if not result_form_ok(form, r[1], env, FUEL):
            raise Invalid("form for compiler-implemented macro %s is outside the shapes known to compile" % r[1])
        return ("result", form, "core:" + r[1])
    if r[0] == "core-model":
        return ("expanded", apply_core_model(r[1], form[1][1:]), "core:" + r[1])
    d = r[1]
    head = form[1][0]
    via = "symbol" if head[0] == "s" else ("hy.R" if head[1][1:3] == [["s", "hy"], ["s", "R"]] else "dotted")
    if head[0] == "s" and head[1] != d["name"]:
        via = "symbol-other-spelling"
    return ("expanded", apply_macro(d, form[1][1:]), "%s:%s:%s" % (d["ns"], d["body"]["k"], via))


def chain(form, env, limit=FUEL):
    """[f0, f1, ..., fn], terminal kind, [info per step]."""
    out, infos = [form], []
    for _ in range(limit):
        kind, nxt, info = step(out[-1], env)
        if kind != "expanded":
            return out, kind, infos + ([info] if info else [])
        out.append(nxt)
        infos.append(info)
    raise Invalid("chain longer than the fuel")


def expected(case):
    """What the called api must return, from the documented rules alone.

    -> dict(expect=node, steps=number of expansions this api performs, chain=[f0..fn] (whole chain when it is in the
    domain, else the prefix this api needs), terminal="identity"|"result"|None, infos=[...])"""
    env = Env(case)
    if not wild_ok(case["form"]):
        raise Invalid("form is not a model")
    if case["api"] == "macroexpand":
        forms, terminal, infos = chain(case["form"], env)
        return dict(expect=forms[-1], steps=len(forms) - 1, chain=forms, terminal=terminal, infos=infos)
    if case["api"] != "macroexpand-1":
        raise Invalid("api")
    kind, nxt, info = step(case["form"], env)
    if kind != "expanded":
        return dict(expect=case["form"], steps=0, chain=[case["form"]], terminal=kind, infos=[info] if info else [])
    try:  # the rest of the chain only classifies the case; nothing after the first step is executed by macroexpand-1
        forms, terminal, infos = chain(case["form"], env)
    except Invalid:
        forms, terminal, infos = [case["form"], nxt], None, [info]
    return dict(expect=nxt, steps=1, chain=forms, terminal=terminal, infos=infos)
