"""Subprocess worker for C16.

    python -m vf.c16worker A|B <batch.json>

batch = {"dir": run directory, "cases": [[name, source], ...]}.  Prints a JSON list, one result per case.

Pass A (first interpreter): writes <dir>/<name>/vfm_<name>.hy and runs
  two-step   HyLoader.get_code (compile phase; writes the .pyc) then exec of the code object (run phase)
  reimport   a real import in the same process: must come from the bytecode just written
  lazy       hy.eval of the hy.read_many stream as a whole
  stream     hy.eval form by form over hy.read_many
Pass B (fresh interpreter, same private bytecode directory):
  bc         a real import: must come from bytecode
  src        the .pyc removed, a real import again: compiles

Effects are observed through the builtin function E (E tag value): appends [tag, value] to a process-wide log and
returns value.  Compilation is observed by counting calls of hy.importer.hy_compile (the importer's only route to the compiler).
An exception inside a step is data ("exc"), not a worker failure.
"""
import builtins
import importlib
import importlib.util
import json
import os
import sys
import types

LOG = []


def E(tag, value=None):
    LOG.append([tag, value if (value is None or type(value) is int) else "?" + type(value).__name__])
    return value


def take():
    out = list(LOG)
    del LOG[:]
    return out


def main():
    which, path = sys.argv[1], sys.argv[2]
    with open(path) as f:
        batch = json.load(f)
    if sys.dont_write_bytecode:
        raise SystemExit("c16worker: bytecode writing is disabled in this interpreter")
    import hy
    import hy.importer
    from hy.importer import HyLoader

    builtins.E = E
    sys.pycache_prefix = os.path.join(batch["dir"], "pyc")
    ncompile = [0]
    real_compile = hy.importer.hy_compile

    def counting_compile(*a, **kw):
        ncompile[0] += 1
        return real_compile(*a, **kw)

    hy.importer.hy_compile = counting_compile

    def step(fn):
        del LOG[:]
        ncompile[0] = 0
        out = {}
        try:
            extra = fn()
            if extra:
                out.update(extra)
        except BaseException as e:  # noqa: the program under test failed; reported as data
            if isinstance(e, (KeyboardInterrupt, SystemExit)):
                raise
            out["exc"] = "%s: %s" % (type(e).__name__, str(e)[:300])
        out["log"] = take()
        out["compiles"] = ncompile[0]
        return out

    def real_import(d, modname):
        sys.path.insert(0, d)
        try:
            importlib.invalidate_caches()
            sys.modules.pop(modname, None)
            importlib.import_module(modname)
        finally:
            sys.path.remove(d)
            sys.modules.pop(modname, None)

    results = []
    for name, src in batch["cases"]:
        d = os.path.join(batch["dir"], name)
        modname = "vfm_" + name
        fpath = os.path.join(d, modname + ".hy")
        res = {}
        if which == "A":
            os.makedirs(d, exist_ok=True)
            with open(fpath, "w") as f:
                f.write(src)
            holder = {}

            def compile_phase():
                holder["code"] = HyLoader(modname, fpath).get_code(modname)

            res["compile"] = step(compile_phase)
            res["pyc_written"] = os.path.exists(importlib.util.cache_from_source(fpath))

            def run_phase():
                mod = types.ModuleType(modname)
                mod.__file__ = fpath
                exec(holder["code"], mod.__dict__)

            if "code" in holder:
                res["run"] = step(run_phase)
            res["reimport"] = step(lambda: real_import(d, modname))

            def lazy():
                mod = types.ModuleType(modname + "_lazy")
                hy.eval(hy.read_many(src), module=mod)

            res["lazy"] = step(lazy)

            def stream():
                mod = types.ModuleType(modname + "_stream")
                vals = []
                for form in hy.read_many(src):
                    v = hy.eval(form, module=mod)
                    vals.append(v if (v is None or type(v) is int) else "?")
                return {"values": vals}

            res["stream"] = step(stream)
        else:
            res["bc"] = step(lambda: real_import(d, modname))
            pyc = importlib.util.cache_from_source(fpath)
            res["pyc_present"] = os.path.exists(pyc)
            if res["pyc_present"]:
                os.remove(pyc)
            res["src"] = step(lambda: real_import(d, modname))
        results.append(res)
    json.dump(results, sys.stdout)


if __name__ == "__main__":
    main()
