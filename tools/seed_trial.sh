#!/bin/sh
# usage: seed_trial.sh <seeded-dir-name> <CHECK-ID>...  -- applies a seeded change in a scratch worktree of /repo's HEAD (never in /repo),
# runs the quick checks against that worktree (evidence redirected), prints verdict lines, removes the worktree
N="$1"; shift; D=/verif/seeded/$N; WT=/tmp/seed/wt/trial-$N; EV=/tmp/seed/ev-$N
mkdir -p /tmp/seed/wt
git -C /repo worktree remove --force "$WT" 2>/dev/null
git -C /repo worktree add -q --detach "$WT" HEAD || exit 2
if ! git -C "$WT" apply "$D/patch.diff"; then echo "$N: patch does not apply to HEAD"; git -C /repo worktree remove --force "$WT"; exit 3; fi
for c in "$@"; do
  out=$(cd /verif && VF_REPO="$WT" PYTHONPATH="$WT" VF_EVIDENCE_DIR="$EV" ./check "$c" ${TIER:-quick} 2>&1); rc=$?
  echo "$out" | grep -E "^(VIOLATION|KNOWN|property=|HARNESS|  bucket)" | cut -c1-260 | head -${LINES_MAX:-8}
  echo "== $N vs $c: exit=$rc"
done
git -C /repo worktree remove --force "$WT"; rm -rf "$EV"
