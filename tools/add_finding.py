#!/usr/bin/env python3
"""usage: add_finding.py <json-file-or-->  -- appends one entry (a JSON object) to known_findings.json (development-time tool; never run by a check)"""
import json, os, sys
ROOT = os.path.dirname(os.path.dirname(os.path.abspath(__file__)))
e = json.load(sys.stdin if sys.argv[1] == "-" else open(sys.argv[1]))
p = os.path.join(ROOT, "known_findings.json")
d = json.load(open(p))
d["findings"] = [x for x in d["findings"] if x["id"] != e["id"]] + [e]
json.dump(d, open(p, "w"), indent=1, ensure_ascii=False)
open(p, "a").write("\n")
print("entries:", len(d["findings"]))
