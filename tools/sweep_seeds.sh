#!/bin/sh
# usage: sweep_seeds.sh [name-prefix...]  -- for every seeded change (or those matching a prefix) run its own property's quick
# check against the change in a scratch worktree; record the outcome in seeded/<name>/meta.json (detected_by / sweep) and print a table
cd /verif || exit 2
for d in seeded/*/; do
  n=$(basename "$d"); p=${n%%-*}
  if [ $# -gt 0 ]; then ok=0; for pre in "$@"; do case "$n" in $pre*) ok=1;; esac; done; [ $ok = 1 ] || continue; fi
  [ -f "vf/props/$(echo $p | tr A-Z a-z).py" ] || { echo "$n: no check module for $p"; continue; }
  out=$(tools/seed_trial.sh "$n" "$p" 2>&1)
  rc=$(echo "$out" | sed -n 's/.*exit=\([0-9]*\)$/\1/p' | tail -1)
  buckets=$(echo "$out" | sed -n 's/^  bucket: \(.*\) \[.*/\1/p' | head -4 | tr '\n' ';')
  line=$(echo "$out" | grep '^property=' | head -1)
  echo "$n rc=$rc $buckets"
  /venv/bin/python - "$d/meta.json" "$p" "$rc" "$buckets" "$line" <<'PY'
import json, sys
p, prop, rc, buckets, line = sys.argv[1:6]
m = json.load(open(p))
m["detected_by"] = [prop] if rc == "1" else []
m["sweep"] = {"check": prop, "tier": "quick", "exit": rc, "buckets": [b for b in buckets.split(";") if b], "summary": line,
              "note": "exit 1 = reported as VIOLATION; 3 = patch no longer applies to /repo's HEAD (a later fix: commit touched the same lines)"}
json.dump(m, open(p, "w"), indent=1)
PY
done
