#!/bin/sh
# Offline setup: make sure hypothesis (and, best effort, atheris) are importable by /venv's python.
cd "$(dirname "$0")/.." || exit 1
PY=/venv/bin/python
mkdir -p .work .deps
if ! PYTHONPATH=.deps $PY -c "import hypothesis" 2>/dev/null; then
  /venv/bin/pip install --no-index --find-links /opt/veriftools/wheels --target .deps hypothesis || exit 1
fi
if ! PYTHONPATH=.deps $PY -c "import atheris" 2>/dev/null; then
  /venv/bin/pip install --no-index --find-links /opt/veriftools/wheels --target .deps atheris >/dev/null 2>&1 || echo "atheris unavailable (optional)"
fi
PYTHONPATH=.deps $PY -c "import hypothesis, hy; print('setup ok: hypothesis', hypothesis.__version__, 'hy from', hy.__file__)"
