#!/bin/sh
# usage: reconfirm_seed.sh <seeded-dir-name>  -- re-checks a filed seeded change against /repo's *current* HEAD in a scratch worktree
N="$1"; D=/verif/seeded/$N; WT=/tmp/seed/wt/_cur
git -C /repo worktree remove --force "$WT" 2>/dev/null
git -C /repo worktree add -q --detach "$WT" HEAD || exit 2
cd "$WT" || exit 2
/venv/bin/python "$D/demo.py" >/tmp/seed/rd0.out 2>&1; rc0=$?
git apply "$D/patch.diff" || { echo "$N: patch does not apply to HEAD"; git -C /repo worktree remove --force "$WT"; exit 3; }
/venv/bin/python "$D/demo.py" >/tmp/seed/rd1.out 2>&1; rc1=$?
if [ "$2" != "notests" ]; then /tmp/seed/run_tests.sh "$WT" > /tmp/seed/rt.out 2>&1; rct=$?; else rct=0; fi
cd /; git -C /repo worktree remove --force "$WT"
echo "$N @HEAD: demo pristine rc=$rc0 patched rc=$rc1 tests rc=$rct"
[ $rc0 -eq 0 ] && [ $rc1 -ne 0 ] && [ $rct -eq 0 ] && echo RECONFIRMED || echo NOT-RECONFIRMED
