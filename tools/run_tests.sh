#!/bin/sh
# usage: run_tests.sh <worktree>  -- runs the pinned suite in <worktree> (hy imported from there) and checks every baseline stable_pass test passes
WT="$1"; X=$(mktemp /tmp/seed/junit.XXXXXX.xml)
cd "$WT" || exit 2
PYTHONPATH="$WT" /venv/bin/python -m pytest -ra -q -p no:cacheprovider --timeout=900 --continue-on-collection-errors --junitxml="$X" >/dev/null 2>&1
/venv/bin/python - "$X" <<'PY'
import json, sys, xml.etree.ElementTree as ET
b = json.load(open('/root/.vp/BASELINE.json'))
want = set(b['stable_pass'])
ok = set()
for tc in ET.parse(sys.argv[1]).getroot().iter('testcase'):
    if not any(c.tag in ('failure', 'error', 'skipped') for c in tc):
        ok.add(tc.get('classname') + '::' + tc.get('name'))
missing = sorted(want - ok)
print("baseline stable_pass: %d, passing now: %d, missing: %d" % (len(want), len(want & ok), len(missing)))
for m in missing[:15]:
    print("  FAIL", m)
sys.exit(1 if missing else 0)
PY
rc=$?; rm -f "$X"; exit $rc
