#!/bin/sh
# usage: confirm_seed.sh <PROP> <A|B>   -- confirms an agent-delivered change in its scratch worktree and files it under /verif/seeded/
P="$1"; V="$2"; WT=/tmp/seed/wt/$P; OUT=/tmp/seed/out/$P; DST=/verif/seeded/$P-$V
[ -f "$OUT/$V.diff" ] || { echo "no diff"; exit 2; }
[ -d "$WT" ] || git -C /repo worktree add -q --detach "$WT" HEAD
git -C "$WT" checkout -q -- . 
cd "$WT" || exit 2
/venv/bin/python "$OUT/${V}_demo.py" >/tmp/seed/demo.out 2>&1; rc0=$?
git -C "$WT" apply "$OUT/$V.diff" || { echo "diff does not apply"; exit 2; }
/venv/bin/python "$OUT/${V}_demo.py" >/tmp/seed/demo1.out 2>&1; rc1=$?
/tmp/seed/run_tests.sh "$WT" > /tmp/seed/tests.out 2>&1; rct=$?
git -C "$WT" checkout -q -- .
echo "$P-$V demo pristine rc=$rc0 mutated rc=$rc1 tests rc=$rct: $(tail -1 /tmp/seed/tests.out)"
if [ $rc0 -eq 0 ] && [ $rc1 -ne 0 ] && [ $rct -eq 0 ]; then
  mkdir -p "$DST"; cp "$OUT/$V.diff" "$DST/patch.diff"; cp "$OUT/${V}_demo.py" "$DST/demo.py"
  /venv/bin/python - "$OUT/${V}_meta.json" "$DST/meta.json" "$P" <<'PY'
import json,sys
m=json.load(open(sys.argv[1]))
m.setdefault("property",sys.argv[3])
m["confirmed"]={"demo_on_pristine":"exit 0 (PASS)","demo_with_patch":"exit 1 (FAIL)","baseline_tests_with_patch":"584/584 pass (tools/confirm_seed.sh -> /tmp/seed/run_tests.sh)"}
m.setdefault("detected_by",[])
json.dump(m,open(sys.argv[2],"w"),indent=1)
PY
  echo CONFIRMED
else
  echo NOT-CONFIRMED; tail -5 /tmp/seed/demo.out /tmp/seed/demo1.out
fi
