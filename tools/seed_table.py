#!/usr/bin/env python3
"""Rewrites the seeded-change table of DESIGN.md from seeded/*/meta.json (needs, last sweep outcome)."""
import glob
import json
import os
import re

ROOT = os.path.dirname(os.path.dirname(os.path.abspath(__file__)))
rows = []
for d in sorted(glob.glob(os.path.join(ROOT, "seeded", "*"))):
    m = json.load(open(os.path.join(d, "meta.json")))
    name = os.path.basename(d)
    needs = re.sub(r"\s+", " ", m.get("needs", "")).replace("|", "/")
    needs = needs if len(needs) <= 150 else needs[:150] + "..."
    sw = m.get("sweep") or {}
    det = m.get("detected_by") or []
    extra = m.get("also_detected_by") or []
    rep = "yes" if sw.get("exit") == "1" else ("no" if sw else "not swept")
    if extra:
        rep += " (also " + ", ".join(extra) + ")"
    first = (sw.get("buckets") or [""])[0].replace("|", "/")
    rows.append("| %s | %s | %s | `%s` |" % (name, needs, rep, first))
p = os.path.join(ROOT, "DESIGN.md")
s = open(p).read()
head = "| Seeded change | What it needs in order to manifest | Reported by its check (quick, seed 1) | First bucket |\n|---|---|---|---|\n"
a = s.index(head) + len(head)
b = a
lines = s[a:].split("\n")
n = 0
while n < len(lines) and lines[n].startswith("| C"):
    n += 1
b = a + sum(len(l) + 1 for l in lines[:n])
s = s[:a] + "\n".join(rows) + "\n" + s[b:]
open(p, "w").write(s)
print("rows:", len(rows), "reported:", sum(1 for r in rows if "| yes" in r))
