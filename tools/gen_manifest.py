#!/usr/bin/env python3
"""Regenerates /verif/MANIFEST.json from the table below (python3 tools/gen_manifest.py)."""
import json
import os

ROOT = os.path.dirname(os.path.dirname(os.path.abspath(__file__)))

# id -> (technique, level text, level note, engine, design ref)
CHECKS = {
    "C32": (
        "exhaustive code-point enumeration x contexts + Hypothesis random names; validity predicates (isidentifier, NFKC, underscore count, idempotence)",
        "Every code point (minus surrogates and '.') is mangled in 7 positional contexts (16 in thorough) and checked against the "
        "five predicates of the property; random multi-character and dotted names extend this to combinations. Exhaustive over "
        "single-character variation, sampled beyond.",
        "Trusts CPython's str.isidentifier and unicodedata for 'identifier' and 'NFKC'.",
        "names", "2/C32"),
    "C33": (
        "exhaustive code-point enumeration x contexts + Hypothesis random names; round-trip oracle mangle(unmangle(mangle(s))) == mangle(s)",
        "Same domain as C32 under the property's precondition; the round trip is executed for every name. Two recorded findings "
        "(known_findings.json) are identified by input-only root-cause predicates; anything else is a violation.",
        "Trusts unicodedata; the precondition is read literally (name after leading underscores does not start with 'hyx_').",
        "names", "2/C33"),
    "C18": (
        "Hypothesis text generators (token alphabet, arbitrary Unicode, mutations of the repository's .hy files, deep nesting, cut Engine-B programs, texts ending in Python-only white space and line terminators); validity-predicate oracle on the outcome type, alarm-based termination check",
        "Tens of thousands (quick) to millions (thorough) of texts are read; any exception other than LexException/PrematureEndOfInput, or a read "
        "that does not finish, is a violation. Deep-nesting inputs pin the recursion limit so RecursionError escaping the reader is visible.",
        "Termination is observed through a 20 s / 120 s limit per read, in a helper process that is killed when a read is stuck inside C code; inputs are <= 8 KB.",
        "textgen", "2/C18"),
    "C19": (
        "Engine-B structured text generator with recorded open-construct intervals; every cut point enumerated per text; oracle = generator ground truth (PrematureEndOfInput iff inside an unclosed construct) + REPL command-compiler leg",
        "Every prefix of every generated well-formed text is read; the expected outcome class comes from the generator's own record of where "
        "constructs open and close, independent of the reader. Exhaustive over cut points per text, sampled over texts.",
        "Trusts vf/textgen.py's interval bookkeeping; mid-token cuts at top level are not claimed (the property does not).",
        "textgen", "2/C19"),
    "C20": (
        "Engine-B structured text generator; absolute oracle (models built by constructors) + metamorphic relations (separator stripping, concatenation, sugar vs long form)",
        "Each generated text is compared node-by-node (type-, value- and attribute-exact) with the model tree the generator built independently, "
        "then re-read without separators, in long form and concatenated with a second program.",
        "Trusts vf/textgen.py's renderer and hy.models constructors.",
        "textgen", "2/C20"),
    "C21": (
        "Engine-B structured text generator with recorded character spans; round-trip oracle (slice by reported region, re-read, compare) + containment/order invariants + equality with the written spans",
        "For every model of every generated text the reported region is sliced out of the source and re-read; regions must equal the spans the "
        "generator recorded when it wrote the text, nest properly and be ordered.",
        "Models without own text (sugar heads, parts of dotted identifiers) and parts inside f-strings are checked for containment/order only.",
        "textgen", "2/C21"),
    "C01": (
        "Hypothesis-generated programs over a JSON IR (Engine A) differentially executed against a reference interpreter; series-parallel trace acceptance for effect order",
        "Thousands (quick) to hundreds of thousands (thorough) of generated programs nest every statement-producing form in expression slots; "
        "the compiled code's value, escaping exception and effect log are compared with an independent interpreter of the documented semantics.",
        "Trusts vf/progs.py (reference interpreter) and the generator's discipline (unique names, no races between unordered siblings).",
        "progs", "2/C01"),
    "C02": (
        "Hypothesis-sampled and (thorough) enumerated and/or forms over operand-shape vectors x truthiness assignments, differential against Python's own and/or in the reference interpreter; exact effect-log comparison",
        "All arities 0..8, every operand shape, every context (value, setv, argument, if test, nested) are sampled; arity <= 4 is enumerated "
        "exhaustively in the thorough tier; the function forms (and #* xs)/hy.pyops are checked on value lists.",
        "Trusts the reference interpreter's and/or clause (Python's own operators).",
        "progs", "2/C02"),
    "C09": (
        "fault injection: every dynamic effect point of generated try/with programs gets an injected exception (singles exhaustive, pairs sampled/exhaustive), differential against CPython's try/with in the reference interpreter",
        "Each generated program is compiled once and re-run once per effect point and exception class (and per pair of points): exhaustive single-fault "
        "enumeration per program, sampled over programs.",
        "Trusts vf/progs.py, whose try/with clauses are Python's own statements; argument lists carry at most one effectful child.",
        "progs", "2/C09"),
    "C12": (
        "Hypothesis-generated programs with look-alike user names; static validity predicate over all identifiers of the compiled AST + differential execution of all-arguments-lifted constructs against the reference interpreter",
        "Every identifier the compiler emits that the program did not write must be hy or _hy_-prefixed; constructs whose every argument needs a "
        "temporary are executed and compared, with sentinel variables read back.",
        "Trusts hy.mangle for the program's own names (C32/C34) and vf/progs.py.",
        "progs", "2/C12"),
    "C14": (
        "metamorphic/differential: the same compiled module executed from its AST and from hy2py's printed Python, on Hypothesis-generated programs with keyword/non-ASCII names and injected faults",
        "For each generated program the hy2py text must compile and reproduce value, exact effect log and escaping exception of the AST execution.",
        "CPython's compile/exec are the reference for both artefacts.",
        "progs", "2/C14"),
    "C13": (
        "metamorphic: generated scoping-heavy sources (nonlocal/global lists, comprehension leak lists, let) and Engine-A programs compiled in fresh interpreter processes under several PYTHONHASHSEED values; AST dump and canonical code-object dump must be identical",
        "Each batch of sources is compiled under 3 (quick) / 6 (thorough) hash seeds in separate processes and the sha256 of ast.dump(include_attributes=True) "
        "and of the code objects compared. Sampled over sources; the hash seed is the schedule the check owns.",
        "Code objects are compared field-wise (marshal reference flags and CPython's own frozenset constant order are not Hy's doing).",
        "progs", "2/C13"),
    "C17": (
        "Engine-A programs printed one subform per line with a raising form planted at every evaluated leaf position (plain, as a macro argument spliced into a template, as a two-line core operator form returned unchanged by a macro, inside a macro template); oracle = line recorded by the generator vs. innermost traceback frame of the program's file",
        "All leaf positions of each generated program are tried; the reference interpreter decides whether the raising form is reached and the exception escapes; "
        "the traceback line must be the line of the raising form (of the macro call for template-made code).",
        "Trusts vf/progs.py for reachability and the renderer's line bookkeeping.",
        "progs", "2/C17"),
    "C22": (
        "structurally generated numeric literal texts (Python grammar, Hy's documented extensions, near misses); differential against ast.literal_eval/int/float/complex, type- and bit-exact; near misses must read as one Symbol",
        "Tens of thousands of literal texts per run in three classes; expected values come from CPython or from construction (separators removed), never from Hy.",
        "CPython defines the value of a Python numeric literal; ASCII digits only.",
        "literals", "2/C22"),
    "C23": (
        "generated string/bytes/bracket-string literals from pieces (every valid and invalid escape, raw newlines, non-ASCII, delimiters); differential against CPython's evaluation of the equivalent literal with warnings as errors",
        "A value from CPython => Hy must read one String/Bytes of the same type and value; an invalid escape or SyntaxError => LexException. Bracket strings: "
        "value by construction (one leading newline removed), delimiter recorded in brackets.",
        "CPython 3.12's tokenizer is the reference; octal escapes above \\377 are recognised escapes whose value CPython defines (with a warning): judged by value.",
        "literals", "2/C23"),
    "C24": (
        "f-string structures rendered twice (Hy and Python) from one tree and evaluated in the same environment; differential on the resulting string or exception type; malformed variants must raise a SyntaxError subclass",
        "Covers literal parts, conversions, the = form, nested format specs (depth <= 2), nested f-strings, plain and bracketed f-strings; sampled.",
        "CPython 3.12 (PEP 701) is the reference; both renderings come from one structure built by vf/props/c24.py.",
        "literals", "2/C24"),
    "C30": (
        "round trip on models read from Engine-B texts and on position-free constructor copies: hy.eval of (quote m) must equal m node by node (type, value, brackets, conversion, expression, is_tstring)",
        "Thousands of models of every syntax form per run, including FString/FComponent, t-strings, bracket strings and symbols that look special; sampled.",
        "Models come from the reader (C20 checks the reader against independently built models).",
        "textgen", "2/C30"),
    "C39": (
        "histories of 1..3 hy.eval calls on shared namespace dictionaries with a prior 'hy' entry absent / sentinel / None / real module, clean, with an injected exception at every effect point, or failing at compile time; invariant after every call + reference interpreter for the value",
        "After every call, normal or raising, each dictionary passed must have its 'hy' entry exactly as before (presence and identity); the returned value is "
        "compared with the reference interpreter. Single faults are exhaustive for the first call of a history, histories are sampled.",
        "Trusts vf/progs.py for the returned value.",
        "progs", "2/C39"),
}

CHECKS.update({
    "C41": (
        "differential/metamorphic over subprocess runs: each Hypothesis-generated program + argument list (option look-alikes enumerated as first argument) is executed through hy -c, hy FILE, hy - and hy -m; sys.argv must be exactly what CPython documents for the equivalent python invocation (rule validated against real python each run) and stdout, exit status and final stderr line must be identical across the modes",
        "Programs over 24 statement kinds x 20 endings, 0..6 arguments (option look-alikes, --, -, empty, whitespace, quotes, Unicode), Hy options before the selector, three spellings of -c/-m, 10 FILE layouts and 6 MODULE layouts; 48 + 28 programs quick, 1600 + 28 thorough, four child processes each.",
        "CPython is the reference for argv; a text that no mode runs and that hy_compile rejects is not a program (agreement only); timeouts are harness errors.",
        "cli", "2/C41"),
    "C35": (
        "model-based property testing: enumerated require / pragma / precedence grids + Hypothesis random histories of defmacro, require (all documented shapes), pragma and scope open/close over two generated macro modules; lock-step reference model of the macro namespaces (macros= -> local innermost->outermost -> module -> core; documented name set per require shape) decides every call's expansion value, the final _hy_macros keys and the core-shadow warnings; plus REPL sessions on one long-lived compiler in which inputs fail to compile inside a scope that defined a local macro (grid + Hypothesis histories, model = module-level definitions only)",
        "Precedence subsets and require shape x export config x place are enumerated within the stated vocabulary; histories are sampled. Every macro expands to its own integer, so the definition a call used is observable.",
        "Trusts vf/c35_model.py and hy.mangle for names; (local-macros) at places where Python variable scoping intervenes is void.",
        "macrospaces", "2/C35"),
    "C04": (
        "property-based differential testing against a reference evaluator of the documented nested-loop semantics (vf/c04_comp.py, never calls Hy) + metamorphic strategy pair (as written vs. one subform rewritten to (do (E 9000 None) e), which forces the generator-function strategy) over an enumerated clause-kind x forced-slot sweep and Hypothesis-sampled clause lists",
        "lfor/sfor/dfor/gfor/for forms of 0..5 clauses (iteration with destructuring and starred targets, :if, :setv, :do, #* / #** finals, nested comprehension) in module, function, class and let scopes: result and exact effect log, gfor laziness per next(), post-state of every iteration/:setv/star/setx name and of the let binding, for-else. Clause-kind vectors <= 3 (thorough <= 4) x form kinds x forced slot enumerated, the rest sampled.",
        "Unspecified evaluation orders are excluded by construction; one recorded finding (setx in a nested comprehension) is identified by a matcher on the case shape and bucket.",
        "comprehensions", "2/C04"),
    "C15": (
        "property-based differential/metamorphic test over generated Hy packages: source import vs. import from cached bytecode in child interpreters (same process and fresh process, private PYTHONPYCACHEPREFIX), with a reference model of require for the expected run-time expansions; generated file names x a Python/Hy polyglot for the extension rule",
        "Second import compiles nothing and really unmarshals the .pyc; outcome, effects, canonical public values, macro and reader tables with defining modules and all run-time macro probes equal between the two imports for every module of the case; a file is handled by Hy iff its extension is not a Python source suffix. 320 + 320 cases quick, 8000 + 6000 thorough.",
        "Modules that bind one macro/reader name twice and names whose meaning the docs do not spell out are excluded (table equality only).",
        "packages", "2/C15"),
    "C10": (
        "property-based generation of sloppy Hy model trees over all core macro heads (read from builtins._hy_macros at run time; per-head templates of the documented shapes + 0..3 mutations; 35% through the text route); outcome-validity oracle hy_compile -> CPython compile() -> marshal; bucketed crash triage with a zone-aware shrinker",
        "Allowed outcomes: success of all three stages, a HyLanguageError subclass / SyntaxError from Hy, or a SyntaxError from compile(); anything else (HyCompileError, ValueError/TypeError/SystemError from compile(), marshal failure, 20 s CPU without outcome) is a violation. 16 000 (quick) / 400 000 (thorough) trees, depth <= 6.",
        "Errors that merely wrap an internal exception inside HyMacroExpansionError satisfy the property's letter and are only counted (classes wrapped:*); compile-time evaluating heads get whitelisted terminating bodies only.",
        "trees", "2/C10"),
    "C16": (
        "generated staging programs (JSON IR: eval-when-compile / eval-and-compile / do-mac nested in each other, in fn/defn/let/if, templates and unquotes) executed through compile / run / bytecode-import / hy.eval histories in child interpreters with a private bytecode cache; differential against a reference model of staging written from docs/api.rst; structure-aware shrinking",
        "The exact [tag, value] logs of the compile phase and of the run phase, both bytecode histories (run phase only, zero compilations), source import and whole-stream hy.eval (compile then run) and the form-by-form interleaved hy.eval must equal the model's. 1200 (quick) / 30 000 (thorough) programs in batches of 60.",
        "Compositional reading of 'once': a staging form inside an eval-and-compile body is compiled twice (api.rst: evaluated as soon as compiled, then left in the program); at most one effectful unquote per quasiquote (semantics.rst leaves the order of a sequence's children unspecified).",
        "staging", "2/C16"),
    "C26": (
        "exhaustive short strings over a 40-character syntax alphabet plus Hypothesis-drawn names and bracket delimiter/content pairs; oracle = constructor success <=> hy.read_many of the corresponding text yields exactly that one model; root-cause tags from a spec model of bracket-string reading",
        "Symbol(s) vs reading s, Keyword(s) vs reading ':'+s, String(s, brackets=d) vs reading '#['+d+'['+s+']'+d+']'. All strings of length <= 2 (thorough <= 3) as Symbol and Keyword, 42 delimiters x all contents of length <= 2, 30 000 / 1.2 million drawn cases.",
        "One recorded finding (content starting with a line feed) is identified by the spec model's tag, which is only assigned when the real read result equals the model's prediction.",
        "constructors", "2/C26"),
    "C37": (
        "generated multi-stream histories (two fresh modules, 0..2 on-disk libraries, nested and interleaved streams, reader reuse) of defreader / require :readers / uses / compile-time state, driven as hy.eval(hy.read_many ...), form by form, or nested, against a reference model of per-module and per-reader tables that never imports hy; eager reading as negative control; per-reader probes of every pool name afterwards",
        "Every form's model and value, the position and phase of the expected SyntaxError, recorded and last values, final _hy_reader_macros keys of modules and libraries, and for each reader what every pool name reads as; 3000 (quick) / 120 000 (thorough) histories.",
        "Trusts vf/c37_model.py; names made visible only by a star-require through the module table are outside the domain (the docs do not say what a second reader of the same module sees).",
        "readermacros", "2/C37"),
    "C11": (
        "enumerated slot x wrapper sweep (140 base shapes x every evaluated leaf slot x 12 wrappers: #*/#** sugar and long form, unpack forms with 0/2 arguments, :k v, statement-producing operands) plus Hypothesis-drawn form trees over 56 form kinds, every evaluated leaf a fresh variable; static AST name-presence oracle plus dynamic lookup-logging execution under an all-accepting dummy namespace; in-place minimisation to a construct-path bucket",
        "A form is either rejected (Hy or Python syntax error) or every operand variable occurs as a loaded Name in the compiled module and - where its evaluation is unconditional - is looked up when the code runs. 4024 enumerated cases and 24 000 (quick) / 400 000 (thorough) drawn trees.",
        "Conditional positions (branches, short-circuit tails, loop bodies, handlers, uncalled bodies, lazy annotations) carry no run-time requirement; internal-error rejections are C10's subject and only counted here.",
        "forms", "2/C11"),
    "C28": (
        "generated histories of hy.repr calls (JSON operation lists: repr / arm crash point / re-register / repr under a lowered recursion limit) over models, containers, cycles and fresh test classes whose printers re-enter hy.repr, raise (Exception, BaseException) at chosen steps or swallow nested failures; per-history epilogue and crash-point sweep; stateless reference printer in lock-step + canary invariants after every step + confirmation of every disagreement against a new interpreter process",
        "Each top-level call's text/exception must equal the reference printer's (state scoped to the call); every discrepancy is re-judged against the same single call in a fresh interpreter before it is reported. Crash points are enumerated per object and printer step for up to 8 pairs per history; histories are sampled.",
        "Trusts the reference printer for the restricted value universe (validated against fresh interpreters on sampled calls and on every disagreement).",
        "values", "2/C28"),
    "C31": (
        "reference quasiquote expander over JSON templates (constructor-built models, one grammar for templates and for code inside live unquotes), compared type- and attribute-exactly with hy.eval of (quasiquote T); enumerated splice grid (7 sequence kinds x 31 splice values x 5 positions) and nesting grid (all interleavings of <= 2 quasiquotes and <= 3 unquotes) plus Hypothesis templates to nesting level 2",
        "Level-0 unquote -> value, level-0 splice -> elements of (or value []), quasiquote +1, unquote/splice at level > 0 stay literal and lower the level. A result must equal the reference with every substituted value promoted, or with every one inserted as it is (what Hy does; docs/syntax.rst places promotion at compile time and upstream's tests promote before comparing).",
        "hy.as-model defines 'promoted'; raw insertion of substituted values is accepted and counted (class flavour:raw).",
        "quasi", "2/C31"),
    "C25": (
        "round trip on models read from Engine-B texts (every syntax form incl. bracket strings, f-/t-strings with conversions, =, nested multi-part format specs): hy.eval(hy.read(hy.repr(m))) compared node by node (type, value, brackets, conversion, is_tstring) and hy.repr of the result compared with the first text",
        "Thousands of models per run, each top-level model separately; one recorded finding (a format-spec literal containing '}') is identified by a root-cause predicate on the model, counted as excluded_known.",
        "Models come from the reader (C20 checks the reader against independently built models); FComponent.expression is not compared (the property does not list it).",
        "textgen", "2/C25"),
    "C29": (
        "grammar-generated nested values, existing models and self-referential/shared object graphs (tagged JSON rebuilt per case), histories of 1..3 promotions with in-place healing and repeated promotion; oracles: all-Object, model preservation, idempotence, independent value model against hy.eval, HyWrapperError for cycles, guard state empty afterwards",
        "About 12 000 (quick) to 600 000 (thorough) histories; all 114 combinations of enclosing kind, holder kind and wrapper for self-reference are enumerated each run.",
        "Evaluated leaves are compared type-exactly and NaN-aware; set/dict order is not compared.",
        "values", "2/C29"),
    "C36": (
        "Hypothesis-generated macro environments (chains across module / required module / macros= namespaces, shadowing of core macros, returned arguments, non-model return values) and forms against a reference expansion stepper that never imports hy, plus a deep attribute snapshot of the input before/after; 40 compiler-implemented forms enumerated",
        "macroexpand-1 = exactly one step or identity, macroexpand = fixpoint on the head, compiler-implemented macros leave the form as it is, the input model is never mutated; inputs with positions from text, none, root only, or a drawn subset.",
        "Trusts vf/c36_ref.py (lookup order and the documented when/cond expansions); generated macro bodies count their calls so an endless expansion is a failure, not a hang.",
        "macroenv", "2/C36"),
    "C06": (
        "Hypothesis-generated scoping programs (Engine C: nested let with sequential bindings and re-binding, fn/defn closures, parameters and locals shadowing let names, setv/for to let-bound names, lfor variables shadowing let names under both compilation strategies) differentially executed against a binder-resolving reference interpreter; every read is logged",
        "Thousands of programs per run at module and function level; the (id, value) log of every read and the final module values of the pool names (incl. a name that must never become a module variable) must equal the reference's.",
        "Trusts vf/scopes.py (resolver + interpreter transcribed from docs/api.rst and Python's scoping). Programs that would trip CPython 3.12.1's comprehension-inlining bug are avoided by construction and skipped if met.",
        "scopes", "2/C06"),
    "C07": (
        "Hypothesis-generated scoping programs (Engine C: functions, classes with methods, lets, comprehensions; nonlocal/global declarations with several names at random levels, chains, global inside the binding let; negative cases) differentially executed against a binder-resolving reference interpreter; compile-time rejection must coincide",
        "Thousands of nestings of depth <= 4 per run; reads logged and module variables compared as for C06; declaration-after-use, parameter-and-declared and nonlocal-without-binding must be SyntaxErrors, everything else must compile.",
        "Trusts vf/scopes.py. Shapes the docs leave open (mid-body nonlocal, nonlocal below an enclosing global declaration, declarations after a use that is captured by a let or lies in a nested function) are not generated.",
        "scopes", "2/C07"),
    "C27": (
        "Hypothesis-generated nested values of every documented type incl. shared and self-referential containers (tagged JSON trees); round trip eval(read(hy.repr(x))) compared type-exactly and NaN-aware; cyclic print-outs compared with the acyclic twin with registered placeholders substituted",
        "About 5 000 (quick) to 500 000 (thorough) values of depth <= 3/4; failures localised to the smallest failing sub-value. One recorded finding (defaultdict factory) is identified by a root-cause matcher.",
        "Equality is each type's own ==, NaN equal to NaN; zero sign and deque maxlen are counted, not compared.",
        "values", "2/C27"),
    "C34": (
        "generated symbol pairs (eight derivation relations + curated pairs) x 126 writer>reader construct scenarios over variables, attributes, keyword arguments/parameters and macros; programs compiled and run in fresh modules; namespaces observed from Python under hy.mangle",
        "Each pair runs on six scenarios round-robin (curated pairs on all): the written object is visible through the reader iff the manglings are equal, and the raw namespace changed under exactly hy.mangle(s).",
        "hy.mangle is taken as the definition of the identifier (C32/C33 check mangle itself); names with the two recorded C33 shapes are excluded by construction and counted.",
        "names", "2/C34"),
    "C38": (
        "systematic concurrency testing: harness-owned thread scheduler (sys.monitoring INSTRUCTION events on gensym's code + cooperative lock), exhaustive enumeration of all schedules within a pre-emption bound (2 threads <= 2, 3 threads <= 1; thorough up to <= 4 / <= 2) plus Hypothesis-drawn schedules and argument strings; oracle: pairwise distinct Symbols, _hy_ prefix, mangle fixpoint, no deadlock or schedule-dependent exception",
        "Every interleaving of gensym's bytecode within the bound is executed deterministically and is replayable from JSON; exhaustive within the bound, sampled beyond.",
        "CPython 3.12 sys.monitoring; interleaving granularity = instructions of gensym's own code (callees in other modules are atomic steps).",
        "schedules", "2/C38"),
    "C40": (
        "enumerated (all input-kind sequences up to length 4/5) and Hypothesis-generated REPL histories and line-split Engine-B programs driven through hy.REPL.runsource; lock-step reference model of *1 *2 *3 *e, by-construction completeness and results",
        "runsource is truthy exactly on incomplete prefixes; stdout equals the input's prints plus hy.repr of the last value; history variables follow a set-valued model (either convention for failed inputs, no duplicated result); *e by identity.",
        "Trusts vf/textgen.py's open-construct record for completeness; sys.excepthook is replaced during sessions.",
        "sessions", "2/C40"),
    "C08": (
        "Hypothesis-generated match forms (pattern trees of depth <= 3, guards, statement-producing bodies, three uses, two scopes) with matching-biased subjects, rendered as Hy and as a Python match statement; differential against CPython (selected case, returned value, bound names, guard/effect log, exception, compile-time rejection)",
        "Every pattern kind of Hy's match sublanguage incl. #* _ / #* rest, #** rest, class patterns with __match_args__, |, :as and keyword patterns; subjects instantiated from a case's pattern and mutated. Sampled.",
        "CPython 3.12's match statement is the reference; only the selected case's captures are compared afterwards.",
        "matchgen", "2/C08"),
    "C05": (
        "Hypothesis-generated lambda lists (legal shapes by construction + illegal mutations) and call shapes (fitting call + mutations) rendered as Hy and as Python; differential against CPython's def/call (bound values, TypeError, compile-time rejection); function bodies differential against the Python def for __doc__, implicit return, generator and coroutine results",
        "Signatures up to 6 parameters x up to 8 calls each through defn, fn->lambda, fn->def and :async; bodies of 1..4 forms incl. every string-literal flavour, yield, yield :from and nested generator lambdas, sync and async. Sampled.",
        "CPython 3.12 is the reference; keyword arguments are modelled as moved behind the positionals (docs/syntax.rst); kwargs dict order is not compared.",
        "signatures", "2/C05"),
    "C03": (
        "enumerated (arity <= 3) and Hypothesis-drawn (arity <= 6) operator applications; four-way differential: compiled macro form, hy.pyops function, CPython evaluating the documented expansion text, macro forms with #*; augmented assignment against Python's own op= over the documented aggregator",
        "All 25 operators at every allowed arity: arity <= 2 over a 36-value pool exhaustively, arity 3 over a reduced pool (full pool in thorough), "
        "arities 4..6, operand aliasing, #* split points and op= on name/subscript/attribute targets sampled. Agreement on (type, repr) or exception type.",
        "CPython is the reference for the documented Python expansion; the nullary/unary/aggregator table is transcribed from the pyops docstrings and cross-checked against them each run.",
        "operators", "2/C03"),
})

NOT_CLAIMED = {}
LEVELS = {"C09": "fault_enumeration", "C38": "exploration"}

NOT_YET = "check not built yet (planned in DESIGN.md section 2); not claimed"
NOT_CLAIMED_OLD = {
    "C25": "a check module exists (vf/props/c25.py) but its failures on the unchanged tree are not triaged yet (hy.repr of bracket strings and f-string parts, "
           "DESIGN.md section 4/8); not claimed until each is either repaired or recorded as a known finding",
}


def main():
    props = [json.loads(l) for l in open(os.path.join(ROOT, "properties.jsonl"))]
    checks = []
    na = []
    for p in props:
        pid = p["id"]
        if pid in CHECKS and os.path.exists(os.path.join(ROOT, "vf", "props", pid.lower() + ".py")):
            tech, text, note, engine, ref = CHECKS[pid]
            checks.append({
                "property_id": pid,
                "quick_cmd": "./check %s quick" % pid,
                "thorough_cmd": "./check %s thorough" % pid,
                "evidence_file": "evidence/%s.json" % pid,
                "replay_cmd_template": "./check %s --replay {path}" % pid,
                "engine": engine,
                "level_claimed": {"category": LEVELS.get(pid, "exploration"), "text": text, "design_ref": "DESIGN.md section " + ref},
                "level_note": note,
                "technique": "property-based testing: " + tech,
            })
        else:
            na.append({"property_id": pid, "reason": NOT_CLAIMED.get(pid, NOT_YET)})
    man = {
        "version": 1,
        "setup_cmd": "sh tools/setup.sh",
        "hooks": {
            "guard": "HYLANG_HY_VERIF",
            "enable": "no source hooks: checks import hy from /repo's working tree (editable install in /venv) and observe it "
                      "from outside; the runner sets HYLANG_HY_VERIF=1 for uniformity only",
            "baseline_off_cmd": "cd /repo && /venv/bin/python -m pytest -ra -q -p no:cacheprovider --timeout=900 --continue-on-collection-errors",
            "source_commits": [],
            "add_only": True,
        },
        "engines": [
            {"name": "progs", "path": "vf/progs.py", "serves_properties": ["C01", "C02", "C09", "C12", "C13", "C14", "C17", "C39"],
             "kind_free_text": "Engine A: JSON program IR, Hypothesis generator (vf/proggen.py), renderer to Hy, reference interpreter with series-parallel effect traces, fault-injecting harness"},
            {"name": "names", "path": "vf/props/c32.py", "serves_properties": ["C32", "C33", "C34"],
             "kind_free_text": "code-point enumeration and Hypothesis name strategy"},
            {"name": "textgen", "path": "vf/textgen.py", "serves_properties": ["C18", "C19", "C20", "C21", "C25", "C30"],
             "kind_free_text": "Engine B: Hypothesis-drawn syntax trees rendered to Hy text with independently built expected models, spans and open-construct intervals"},
            {"name": "operators", "path": "vf/props/c03.py", "serves_properties": ["C03"],
             "kind_free_text": "operator/arity/operand-vector enumeration and strategy with CPython as evaluator of the documented expansion"},
            {"name": "signatures", "path": "vf/props/c05.py", "serves_properties": ["C05"],
             "kind_free_text": "signature/call/body structures rendered both as Hy and as Python, CPython as reference"},
            {"name": "matchgen", "path": "vf/props/c08.py", "serves_properties": ["C08"],
             "kind_free_text": "pattern/subject generator with Hy and Python renderers, CPython's match as reference"},
            {"name": "scopes", "path": "vf/scopes.py", "serves_properties": ["C06", "C07"],
             "kind_free_text": "Engine C: scoping-program IR, Hypothesis generator, renderer, binder-resolving reference interpreter"},
            {"name": "values", "path": "vf/props/c27.py", "serves_properties": ["C27", "C28", "C29"],
             "kind_free_text": "tagged JSON value trees incl. sharing and cycles"},
            {"name": "schedules", "path": "vf/c38_sched.py", "serves_properties": ["C38"],
             "kind_free_text": "owned thread scheduler on sys.monitoring INSTRUCTION events with a cooperative lock"},
            {"name": "sessions", "path": "vf/c40_sessions.py", "serves_properties": ["C40"],
             "kind_free_text": "REPL session driver and history model"},
            {"name": "macroenv", "path": "vf/c36_ref.py", "serves_properties": ["C36"],
             "kind_free_text": "macro-environment cases and a hy-free reference expansion stepper"},
            {"name": "quasi", "path": "vf/c31_ref.py", "serves_properties": ["C31"],
             "kind_free_text": "JSON quasiquote templates and a reference expander"},
            {"name": "forms", "path": "vf/c11_forms.py", "serves_properties": ["C11"],
             "kind_free_text": "form-tree renderer with unique evaluated leaves, lookup-logging namespace"},
            {"name": "trees", "path": "vf/c10_gen.py", "serves_properties": ["C10"],
             "kind_free_text": "sloppy model-tree generator over all core macro heads with compile-time-safe zones"},
            {"name": "staging", "path": "vf/c16_model.py", "serves_properties": ["C16"],
             "kind_free_text": "staging-program IR, renderer, reference model; child-interpreter worker vf/c16worker.py"},
            {"name": "constructors", "path": "vf/props/c26.py", "serves_properties": ["C26"],
             "kind_free_text": "short-string enumeration and drawn names/bracket pairs"},
            {"name": "readermacros", "path": "vf/c37_model.py", "serves_properties": ["C37"],
             "kind_free_text": "multi-stream reader-macro histories with a hy-free reference model"},
            {"name": "comprehensions", "path": "vf/c04_comp.py", "serves_properties": ["C04"],
             "kind_free_text": "clause-list IR, renderer, validity checker and reference evaluator of the nested-loop semantics"},
            {"name": "packages", "path": "vf/c15_gen.py", "serves_properties": ["C15"],
             "kind_free_text": "generated Hy packages (macro modules, every require shape), child-interpreter worker vf/c15worker.py"},
            {"name": "macrospaces", "path": "vf/c35_model.py", "serves_properties": ["C35"],
             "kind_free_text": "macro-namespace histories rendered to generated .hy modules, two-phase reference model"},
            {"name": "cli", "path": "vf/props/c41.py", "serves_properties": ["C41"],
             "kind_free_text": "program/argument/layout generator and four-mode subprocess runner"},
            {"name": "literals", "path": "vf/props/c22.py", "serves_properties": ["C22", "C23", "C24"],
             "kind_free_text": "per-module structural generators of literal texts (vf/props/c22.py, c23.py, c24.py) with CPython as the reference evaluator"},
        ],
        "checks": checks,
        "notes": "All checks: ./check <ID> <quick|thorough> [--replay PATH]; VERIF_SEED honoured; exit 2 = harness error. "
                 "Known findings: known_findings.json. Design: DESIGN.md.",
        "not_applicable": na,
    }
    with open(os.path.join(ROOT, "MANIFEST.json"), "w") as f:
        json.dump(man, f, indent=1)
        f.write("\n")
    print("claimed:", len(checks), "not claimed:", len(na))


if __name__ == "__main__":
    main()
