#!/usr/bin/env python3
"""Regenerates /verif/MANIFEST.json from the table below (python3 tools/gen_manifest.py)."""
import json
import os

ROOT = os.path.dirname(os.path.dirname(os.path.abspath(__file__)))

# id -> (technique, level text, level note, engine, design ref)
CHECKS = {
    "C32": (
        "exhaustive code-point enumeration x contexts + Hypothesis random names; validity predicates (isidentifier, NFKC, underscore count, idempotence)",
        "Every code point (minus surrogates and '.') is mangled in 7 positional contexts (16 in thorough) and checked against the "
        "five predicates of the property; random multi-character and dotted names extend this to combinations. Exhaustive over "
        "single-character variation, sampled beyond.",
        "Trusts CPython's str.isidentifier and unicodedata for 'identifier' and 'NFKC'.",
        "names", "2/C32"),
    "C33": (
        "exhaustive code-point enumeration x contexts + Hypothesis random names; round-trip oracle mangle(unmangle(mangle(s))) == mangle(s)",
        "Same domain as C32 under the property's precondition; the round trip is executed for every name. Two recorded findings "
        "(known_findings.json) are identified by input-only root-cause predicates; anything else is a violation.",
        "Trusts unicodedata; the precondition is read literally (name after leading underscores does not start with 'hyx_').",
        "names", "2/C33"),
    "C18": (
        "Hypothesis text generators (token alphabet, arbitrary Unicode, mutations of the repository's .hy files, deep nesting, cut Engine-B programs); validity-predicate oracle on the outcome type, alarm-based termination check",
        "Tens of thousands (quick) to millions (thorough) of texts are read; any exception other than LexException/PrematureEndOfInput, or a read "
        "that does not finish, is a violation. Deep-nesting inputs pin the recursion limit so RecursionError escaping the reader is visible.",
        "Termination is observed through a 60 s/600 s alarm; inputs are <= 8 KB.",
        "textgen", "2/C18"),
    "C19": (
        "Engine-B structured text generator with recorded open-construct intervals; every cut point enumerated per text; oracle = generator ground truth (PrematureEndOfInput iff inside an unclosed construct) + REPL command-compiler leg",
        "Every prefix of every generated well-formed text is read; the expected outcome class comes from the generator's own record of where "
        "constructs open and close, independent of the reader. Exhaustive over cut points per text, sampled over texts.",
        "Trusts vf/textgen.py's interval bookkeeping; mid-token cuts at top level are not claimed (the property does not).",
        "textgen", "2/C19"),
    "C20": (
        "Engine-B structured text generator; absolute oracle (models built by constructors) + metamorphic relations (separator stripping, concatenation, sugar vs long form)",
        "Each generated text is compared node-by-node (type-, value- and attribute-exact) with the model tree the generator built independently, "
        "then re-read without separators, in long form and concatenated with a second program.",
        "Trusts vf/textgen.py's renderer and hy.models constructors.",
        "textgen", "2/C20"),
    "C21": (
        "Engine-B structured text generator with recorded character spans; round-trip oracle (slice by reported region, re-read, compare) + containment/order invariants + equality with the written spans",
        "For every model of every generated text the reported region is sliced out of the source and re-read; regions must equal the spans the "
        "generator recorded when it wrote the text, nest properly and be ordered.",
        "Models without own text (sugar heads, parts of dotted identifiers) and parts inside f-strings are checked for containment/order only.",
        "textgen", "2/C21"),
}

NOT_YET = "check not built yet in this session (planned in DESIGN.md section 2); not claimed"


def main():
    props = [json.loads(l) for l in open(os.path.join(ROOT, "properties.jsonl"))]
    checks = []
    na = []
    for p in props:
        pid = p["id"]
        if pid in CHECKS and os.path.exists(os.path.join(ROOT, "vf", "props", pid.lower() + ".py")):
            tech, text, note, engine, ref = CHECKS[pid]
            checks.append({
                "property_id": pid,
                "quick_cmd": "./check %s quick" % pid,
                "thorough_cmd": "./check %s thorough" % pid,
                "evidence_file": "evidence/%s.json" % pid,
                "replay_cmd_template": "./check %s --replay {path}" % pid,
                "engine": engine,
                "level_claimed": {"category": "exploration", "text": text, "design_ref": "DESIGN.md section " + ref},
                "level_note": note,
                "technique": "property-based testing: " + tech,
            })
        else:
            na.append({"property_id": pid, "reason": NOT_YET})
    man = {
        "version": 1,
        "setup_cmd": "sh tools/setup.sh",
        "hooks": {
            "guard": "HYLANG_HY_VERIF",
            "enable": "no source hooks: checks import hy from /repo's working tree (editable install in /venv) and observe it "
                      "from outside; the runner sets HYLANG_HY_VERIF=1 for uniformity only",
            "baseline_off_cmd": "cd /repo && /venv/bin/python -m pytest -ra -q -p no:cacheprovider --timeout=900 --continue-on-collection-errors",
            "source_commits": [],
            "add_only": True,
        },
        "engines": [
            {"name": "names", "path": "vf/props/c32.py", "serves_properties": ["C32", "C33"],
             "kind_free_text": "code-point enumeration and Hypothesis name strategy"},
            {"name": "textgen", "path": "vf/textgen.py", "serves_properties": ["C18", "C19", "C20", "C21", "C25", "C30"],
             "kind_free_text": "Engine B: Hypothesis-drawn syntax trees rendered to Hy text with independently built expected models, spans and open-construct intervals"},
        ],
        "checks": checks,
        "notes": "All checks: ./check <ID> <quick|thorough> [--replay PATH]; VERIF_SEED honoured; exit 2 = harness error. "
                 "Known findings: known_findings.json. Design: DESIGN.md.",
        "not_applicable": na,
    }
    with open(os.path.join(ROOT, "MANIFEST.json"), "w") as f:
        json.dump(man, f, indent=1)
        f.write("\n")
    print("claimed:", len(checks), "not claimed:", len(na))


if __name__ == "__main__":
    main()
