#!/bin/sh
# usage: try_seed.sh <seeded-dir-name> <CHECK-ID>...   -- applies the seeded patch to /repo, runs the quick checks, reverts
D=/verif/seeded/$1; shift
cd /repo && git diff --quiet || { echo "/repo not clean"; exit 2; }
git -C /repo apply "$D/patch.diff" || exit 2
for c in "$@"; do
  (cd /verif && ./check "$c" quick 2>&1 | grep -E "^(VIOLATION|KNOWN|property=|HARNESS|  bucket)" | cut -c1-300)
  echo "-> $c exit=$?"
done
git -C /repo checkout -- .
