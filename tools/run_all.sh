#!/bin/sh
# usage: run_all.sh [quick|thorough] [ID...]  -- runs every registered check (or the given ones) on /repo's working tree, one after the other;
# prints one verdict line per check and the wall time; exit 1 if any check did not exit 0
cd "$(dirname "$0")/.." || exit 2
tier=${1:-quick}; [ $# -gt 0 ] && shift
ids="$*"; [ -n "$ids" ] || ids=$(/venv/bin/python -c "import json; print(' '.join(c['property_id'] for c in json.load(open('MANIFEST.json'))['checks']))")
bad=0
for id in $ids; do
  t0=$(date +%s)
  out=$(./check "$id" "$tier" 2>&1); rc=$?
  t1=$(date +%s)
  echo "$id rc=$rc $((t1-t0))s $(echo "$out" | grep '^property=' | head -1 | cut -c1-200)"
  echo "$out" | grep -E '^(VIOLATION|HARNESS|KNOWN|NOTE)' | cut -c1-200
  [ $rc -eq 0 ] || bad=1
done
exit $bad
